#!/bin/bash
# Re-run our checks against every kept seeded change (applied to /repo, undone straight afterwards) and record
# which check catches which change in seeded/<id>/meta.json and seeded/RESULTS.md.
cd /verif
echo "| seeded change | property | caught by | monitors |" > seeded/RESULTS.md
echo "|---|---|---|---|" >> seeded/RESULTS.md
for d in seeded/*/; do
  n=$(basename $d); [ -f $d/patch.diff ] || continue
  p=$(python3 -c "import json;print(json.load(open('$d/meta.json'))['property'])")
  extra=$(python3 -c "import json;print(' '.join(json.load(open('$d/meta.json')).get('also_check',[])))")
  git -C /repo apply /verif/$d/patch.diff || { echo "$n: patch does not apply"; continue; }
  res=""; mons=""
  for c in $p $extra; do
    out=$(timeout 1800 ./check $c 2>&1)
    k=$(echo "$out" | grep -c '^VIOLATION')
    res="$res $c:$k"
    mons="$mons $(echo "$out" | grep -- '-> ' | sed 's/.*-> \([A-Za-z0-9_]*\) fired.*/\1/' | sort -u | tr '\n' ' ')"
  done
  git -C /repo checkout -- .
  python3 - "$d" "$res" "$mons" <<'PY'
import json,sys
d,res,mons=sys.argv[1:4]
m=json.load(open(d+'/meta.json')); m['checks_result_current']=res.strip(); m['monitors_fired']=sorted(set(mons.split()))
json.dump(m,open(d+'/meta.json','w'),indent=1)
PY
  echo "| $n | $p | $res | $(echo $mons | tr ' ' '\n' | sort -u | tr '\n' ' ') |" >> seeded/RESULTS.md
  echo "$n: $res"
done
