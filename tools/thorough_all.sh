#!/bin/bash
# run every check at the thorough tier (used with `vp run`); prints one line per property
cd "$(dirname "$0")/.."
./check --setup >/dev/null 2>&1
for p in C01 C02 C03 C04 C05 C06 C07 C08 C09 C10 C11 C12 C13 C14 C15 C16 C17 C18 C19 C20; do
  s=$(date +%s)
  out=$(./check $p --tier thorough 2>&1); rc=$?
  echo "$p rc=$rc $(( $(date +%s)-s ))s $(echo "$out" | grep -E 'VIOLATION|TOOL-ERROR|KNOWN' | head -2 | tr '\n' ' ')"
done
