#!/usr/bin/env python3
"""tools/wave_prep.py <suffix>: scratch worktrees /tmp/wt_<P><suffix> of /repo HEAD and prompts /tmp/agent_<P><suffix>.txt
for one more round of seeded changes (the prompt lists one-line summaries of the changes already kept for that property)."""
import glob, json, os, subprocess, sys
sfx = sys.argv[1]
here = os.path.dirname(os.path.abspath(__file__))
for i in range(1, 21):
    P = "C%02d" % i
    name = P + sfx
    known = []
    for d in sorted(glob.glob("/verif/seeded/%s*/meta.json" % P)):
        m = json.load(open(d))
        known.append((m.get("summary") or "")[:260].replace("\n", " "))
    avoid = " ".join("(%d) %s" % (k + 1, t) for k, t in enumerate(known))
    wt = "/tmp/wt_" + name
    if not os.path.isdir(wt):
        subprocess.check_call(["git", "-C", "/repo", "worktree", "add", "-q", "--detach", wt, "HEAD"])
    txt = subprocess.check_output([sys.executable, os.path.join(here, "agent_prompt.py"), P, name, avoid], text=True)
    open("/tmp/agent_%s.txt" % name, "w").write(txt)
    open("/tmp/prop_%s.txt" % P, "w").write(txt)
print("prepared wave", sfx)
