import json,sys
pid=sys.argv[1]
name=sys.argv[2] if len(sys.argv)>2 else pid
avoid=sys.argv[3] if len(sys.argv)>3 else ''
hints={
"C15":"(Code: split_path / PrepExec::new / PrepExec::exec / assemble_exe / prep_exec in src/posix.rs; the executable override in os_start in src/popen.rs.)",
"C16":"(Code: `mod exec` in src/builder.rs: Exec::cmd/shell/arg/args/env/env_extend/env_remove/env_clear/cwd/stdin/stdout/stderr/detached, ensure_env, check_no_stdin_data, the terminators, Clone; PopenConfig::try_clone and format_env in src/popen.rs.)",
"C17":"(Code: prep_exec / PrepExec / CVec / assemble_exe / prep_chdir in src/posix.rs; the child branch of os_start and do_exec in src/popen.rs. To observe allocations in the forked child a demo can install a counting #[global_allocator] in the test binary, arm it in the child with libc::pthread_atfork, and report the count through a MAP_SHARED page or a pipe.)",
"C18":"(Code: reset_sigpipe in src/posix.rs, called from do_exec in src/popen.rs.)",
"C19":"(Code: display_escape, to_cmdline_lossy, impl Debug for Exec and Pipeline in src/builder.rs.)",
"C20":"(Code: the `#[cfg(windows)] mod os` part of src/popen.rs: assemble_cmdline, append_quoted. It cannot be compiled for Windows here; for the demonstration copy the two functions into the demo file adapted to Vec<u16>/&[u16] (keeping the logic byte for byte) together with a reference parser implementing the Microsoft CommandLineToArgvW / C runtime rules, and show the round trip failing with your modified logic and passing with the original logic. The change itself must be made in src/popen.rs.)",
"C02":"(API: Popen::communicate / communicate_bytes / communicate_start().read(), Exec::capture, in src/communicate.rs, src/popen.rs, src/builder.rs.)",
"C05":"(Code: setup_streams / do_exec / get_standard_stream / STREAMS thread-local in src/popen.rs, make_standard_stream in src/posix.rs.)",
"C06":"(Code: Popen::create/os_start/format_env/do_exec in src/popen.rs, CVec/prep_exec in src/posix.rs, Exec in src/builder.rs.)",
"C10":"(Code: send_signal / terminate / kill in src/popen.rs (PopenExt), posix::kill.)",
"C11":"(Code: os_wait_timeout / poll in src/popen.rs: deadline loop with waitpid(WNOHANG), sleep(min(delay, remaining)), delay doubling capped at 100 ms.)",
"C14":"(Code: Pipeline::popen / setup_communicate / the terminators in src/builder.rs, Popen::drop in src/popen.rs.)",
}
d=[json.loads(l) for l in open('/verif/properties.jsonl') if json.loads(l)['id']==pid][0]
low=pid.lower()
print(f"""You are working on a Rust library (the `subprocess` crate, hniksic/rust-subprocess) checked out as a git worktree at /tmp/wt_{name}. Work ONLY inside /tmp/wt_{name}. Do NOT read, list or use anything under /verif or /repo (they are off limits for this task), and do not use the network (there is none; use `cargo ... --offline`).

Below is a semantic property that the library is supposed to satisfy (also in /tmp/prop_{pid}.txt):

---
{pid} — {d['title']}

Statement: {d['statement']}

Quantified over: {d['quantifier']['text']}
---
{hints.get(pid,'')}

{('ALREADY KNOWN changes that you must NOT reproduce (find a genuinely different one, in a different code site or with a different trigger): ' + avoid) if avoid else ''}

Prefer a code path, API combination, error path or environment condition that none of the already known changes touches (for instance: an unusual process environment, a rarely combined pair of builder calls, a different terminator, the behaviour after an error, resource exhaustion, concurrent use from several threads, or a platform variant of the code that can be shown by extracting it into the demo).

Your job: produce ONE realistic change (a bug a developer could plausibly introduce while refactoring or "optimising") to the library's source under src/ that BREAKS this property, while the crate still compiles and the existing test suite still passes unchanged (`cd /tmp/wt_{name} && cargo test --offline` must pass: 71 unit tests + integration tests + doc tests). IMPORTANT: `git stash` is shared between worktrees of this repository and other people use it concurrently - NEVER use git stash; to test without your change use `git diff -- src > /tmp/wt_{name}/p.diff && git apply -R /tmp/wt_{name}/p.diff`, and `git apply /tmp/wt_{name}/p.diff` to re-apply. The breakage must need something specific to manifest — a particular interleaving, a fault at a particular point, a multi-step sequence of operations, an unusual input, or two cooperating code sites that each look fine alone — NOT something ordinary use would expose at once (the existing tests must keep passing!).

Also produce a demonstration: a small Rust integration test file at /tmp/wt_{name}/tests/demo_{low}.rs that FAILS WITH your change and PASSES WITHOUT it (guard against hangs with a timeout thread; `libc` is available as a dependency; keep it under ~20 s). Verify both directions yourself: run the demo with your change applied (must fail), then revert the src change (with git apply -R as described, not git stash) and run the demo again (must pass), then re-apply the change.

Deliverables, written to /tmp/wt_{name}/_out/ (create the directory):
 - patch.diff : output of `git diff -- src`
 - the demo file (copy)
 - meta.json : {{"property":"{pid}","summary":"...","needs":"what specific condition is needed for it to manifest","demo_cmd":"exact command","verified":{{"tests_pass_with_change":bool,"demo_fails_with_change":bool,"demo_passes_without_change":bool}}}}

Leave the worktree with your src change APPLIED and the demo file present in tests/. Keep the change small (a few lines). In your final answer give a 5-line summary: what you changed, why existing tests don't notice, what is needed to trigger it, and the verification results.""")
