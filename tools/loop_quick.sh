#!/bin/bash
# flakiness hunt: every quick check with several seeds
cd "$(dirname "$0")/.."
./check --setup >/dev/null 2>&1
for seed in ${@:-2 3 4}; do
  for p in C01 C02 C03 C04 C05 C06 C07 C08 C09 C10 C11 C12 C13 C14 C15 C16 C17 C18 C19 C20; do
    out=$(VERIF_SEED=$seed ./check $p 2>&1); rc=$?
    [ $rc -ne 0 ] && echo "seed=$seed $p rc=$rc $(echo "$out" | grep -E 'VIOLATION|TOOL-ERROR|->' | head -3 | tr '\n' ' ')"
  done
  echo "seed $seed done"
done
