#!/bin/bash
# usage: tools/seeded.sh <PROP> [name]   -- confirm a sub-agent's change in its scratch worktree /tmp/wt_<name>,
# keep it under /verif/seeded/<name>/, run our checks against it (applied to /repo, undone straight afterwards),
# then remove the worktree.
P=$1; N=${2:-$1}; W=/tmp/wt_$N; O=/verif/seeded/$N
[ -d $W/_out ] || { echo "no $W/_out"; exit 2; }
demo=$(ls $W/tests/demo_* 2>/dev/null | head -1)
dn=$(basename "$demo" .rs)
cd $W
# (git stash is shared between worktrees: never use it here) start from the agent's own patch
git checkout -q -- src && git apply _out/patch.diff || { echo "agent patch does not apply"; exit 3; }
mkdir -p /tmp/aside_$N && mv "$demo" /tmp/aside_$N/
t1=$(cargo test --offline 2>&1 | grep -E '^test result' | grep -vc ' 0 failed'); echo "suite failures with change: $t1"
mv /tmp/aside_$N/$(basename $demo) tests/
d1=$(timeout 300 cargo test --offline --test $dn 2>&1 | grep -E '^test result' | grep -c ' 0 failed'); echo "demo passes with change (want 0): $d1"
git apply -R _out/patch.diff
d2=$(timeout 300 cargo test --offline --test $dn 2>&1 | grep -E '^test result' | grep -c ' 0 failed'); echo "demo passes without change (want 1): $d2"
git apply _out/patch.diff
mkdir -p $O && git diff -- src > $O/patch.diff && cp "$demo" $O/ && cp _out/meta.json $O/agent_meta.json
cd /verif
git -C /repo apply $O/patch.diff || { echo "patch does not apply to /repo"; exit 3; }
shift; shift
res=""
for c in $P "$@"; do
  out=$(timeout 1500 ./check $c 2>&1 | grep -E 'VIOLATION|TOOL-ERROR|KNOWN' | head -3); rc=$?
  echo "== ./check $c: $(echo "$out" | head -2)"
  res="$res $c:$(echo "$out" | grep -c VIOLATION)"
done
git -C /repo checkout -- .
python3 - "$O" "$P" "$t1" "$d1" "$d2" "$res" <<'PY'
import json,sys
o,p,t1,d1,d2,res=sys.argv[1:7]
a=json.load(open(o+'/agent_meta.json'))
m={"property":p,"summary":a.get("summary"),"needs":a.get("needs"),"demo_cmd":a.get("demo_cmd"),
   "confirmed_by_me":{"suite_failures_with_change":int(t1),"demo_passes_with_change":int(d1),"demo_passes_without_change":int(d2)},
   "what_i_ran":"in the scratch worktree: cargo test --offline (demo moved aside) with the change; cargo test --offline --test <demo> with and without the src change; then git -C /repo apply patch.diff; ./check <ids>; git -C /repo checkout -- .",
   "checks_result":res.strip()}
json.dump(m,open(o+'/meta.json','w'),indent=1)
print(json.dumps(m["confirmed_by_me"]), m["checks_result"])
PY
git -C /repo worktree remove --force $W; rm -rf /tmp/aside_$N
