"""Shared machinery of the /verif checks: building the harness from /repo's working tree, running TLC
(model checking and trace validation), classifying monitor failures against known_findings.json,
writing evidence and replay files."""
import hashlib
import json
import os
import re
import shutil
import subprocess
import sys
import time
from concurrent.futures import ThreadPoolExecutor

ROOT = os.path.dirname(os.path.dirname(os.path.abspath(__file__)))
HARNESS = os.path.join(ROOT, "harness")
SPEC = os.path.join(ROOT, "spec")
WORK = os.path.join(ROOT, "work")
EVID = os.path.join(ROOT, "evidence")
REPLAYS = os.path.join(EVID, "replays")
BIN = os.path.join(HARNESS, "target", "release")
REPO = "/repo"


class ToolError(Exception):
    pass


def log(*a):
    print(*a, file=sys.stderr, flush=True)


# every invocation of the driver works in a directory of its own, so that checks can run concurrently
RUN = os.path.join(WORK, "run_%d" % os.getpid())


def _cleanup():
    if not os.environ.get("VERIF_KEEP"):
        shutil.rmtree(RUN, ignore_errors=True)
    else:
        log("[keep] work files in " + RUN)


import atexit  # noqa: E402
atexit.register(_cleanup)


def workdir(name):
    d = os.path.join(RUN, name)
    shutil.rmtree(d, ignore_errors=True)
    os.makedirs(d, exist_ok=True)
    os.chmod(WORK, 0o755)
    os.chmod(RUN, 0o777)
    return d


def harness_env():
    """environment for the harness binaries: their scratch directory"""
    e = dict(os.environ)
    d = os.path.join(RUN, "tmp")
    os.makedirs(d, exist_ok=True)
    os.chmod(d, 0o777)
    e["VERIF_RUNDIR"] = d
    return e


def harness_limits():
    """a harness process gone wild (a library loop that logs without end) must not take the machine down: cap its
    address space well above anything a sane run needs (a few hundred MiB)"""
    import ctypes
    import resource
    import signal
    resource.setrlimit(resource.RLIMIT_AS, (24 << 30, 24 << 30))
    # ... and it must not outlive the check that started it (a check killed by a timeout used to leave it spinning)
    ctypes.CDLL(None).prctl(1, signal.SIGKILL)   # PR_SET_PDEATHSIG


def run_harness(argv, timeout):
    """run a harness binary in a session of its own (its reporting children find their report directory by
    session id)"""
    os.makedirs(os.path.join(WORK, "vr"), exist_ok=True)
    os.chmod(os.path.join(WORK, "vr"), 0o777)
    return subprocess.run(argv, stdin=subprocess.DEVNULL, stdout=subprocess.PIPE, stderr=subprocess.PIPE, text=True,
                          timeout=timeout, env=harness_env(), start_new_session=True, preexec_fn=harness_limits)


def env_offline():
    e = dict(os.environ)
    e["CARGO_NET_OFFLINE"] = "true"
    return e


def build_harness():
    """(re)build the harness against /repo's current working tree"""
    t = time.time()
    lock = os.path.join(HARNESS, "Cargo.lock")
    if not os.path.exists(lock):
        shutil.copy(os.path.join(REPO, "Cargo.lock"), lock)
    r = subprocess.run(["cargo", "build", "--release", "--offline"], cwd=HARNESS, env=env_offline(),
                       stdout=subprocess.PIPE, stderr=subprocess.STDOUT, text=True)
    if r.returncode != 0:
        log(r.stdout[-4000:])
        raise ToolError("harness build failed (does /repo still compile?)")
    log("[build] harness built in %.1fs" % (time.time() - t))


def tlc_cmd(workers, metadir, cfg, module, extra=()):
    return ["tlc", "-workers", str(workers), "-metadir", metadir, "-cleanup", "-noGenerateSpecTE",
            *extra, "-config", cfg, module]


STATES_RE = re.compile(r"(\d+) states generated, (\d+) distinct states found")


def tlc_mc(module, cfg, name, workers=8, timeout=900, coverage=False, expect_error=False):
    """model-check spec/<module>.tla with spec/<cfg>; returns dict(states, distinct, ok, error, out)"""
    md = workdir("mc_" + name)
    extra = ["-coverage", "1"] if coverage else []
    t = time.time()
    env = dict(os.environ)
    env["JAVA_TOOL_OPTIONS"] = (env.get("JAVA_TOOL_OPTIONS", "") + " -Djava.io.tmpdir=" + md).strip()
    try:
        r = subprocess.run(tlc_cmd(workers, md, cfg, module, extra), cwd=SPEC, env=env, stdout=subprocess.PIPE,
                           stderr=subprocess.STDOUT, text=True, timeout=timeout)
    except subprocess.TimeoutExpired:
        raise ToolError("TLC timed out on %s/%s" % (module, cfg))
    finally:
        shutil.rmtree(md, ignore_errors=True)
    out = r.stdout
    m = STATES_RE.findall(out)
    states, distinct = (int(m[-1][0]), int(m[-1][1])) if m else (0, 0)
    ok = "Model checking completed. No error has been found." in out
    err = None
    if not ok:
        em = re.search(r"Error: (.*)", out)
        err = em.group(1) if em else "unknown"
        if "Parsing or semantic analysis failed" in out or "ConfigFileException" in out:
            log(out[-3000:])
            raise ToolError("TLC could not parse %s/%s" % (module, cfg))
    if not ok and not ("is violated" in out or "Deadlock reached" in out or "Temporal properties were violated" in out):
        # anything but a property counterexample (evaluation error, unfingerprintable value, ...) is a defect of
        # the specification / configuration, not a result
        log(out[-3000:])
        raise ToolError("TLC failed on %s/%s: %s" % (module, cfg, err))
    res = {"module": module, "cfg": cfg, "states": states, "distinct": distinct, "ok": ok, "error": err,
           "wall_s": round(time.time() - t, 1), "out": out}
    if not ok and not expect_error:
        log(out[-3000:])
    return res


RESULT_RE = re.compile(r'^<<"RESULT", (.*)>>$')


def parse_tla_set(s):
    s = s.strip()
    if s == "{}":
        return []
    return re.findall(r'"([^"]*)"', s)


def split_top(s):
    """split a TLA+ tuple body at top-level commas"""
    parts, depth, cur, instr = [], 0, "", False
    for ch in s:
        if ch == '"':
            instr = not instr
        if not instr:
            if ch in "{<[(":
                depth += 1
            elif ch in "}>])":
                depth -= 1
            elif ch == "," and depth == 0:
                parts.append(cur.strip())
                cur = ""
                continue
        cur += ch
    if cur.strip():
        parts.append(cur.strip())
    return parts


def tlc_trace(module, cfg, trace_path, name, timeout=600):
    """validate one NDJSON trace file; returns dict(results=[(id, viol, sanity, extra...)], accepted, unmatched)"""
    md = workdir("tv_" + name)
    env = dict(os.environ)
    env["TRACE"] = trace_path
    env["JAVA_TOOL_OPTIONS"] = "-Xss1g -Xmx3g -Djava.io.tmpdir=" + md
    try:
        r = subprocess.run(tlc_cmd(1, md, cfg, module), cwd=SPEC, env=env, stdout=subprocess.PIPE,
                           stderr=subprocess.STDOUT, text=True, timeout=timeout)
    except subprocess.TimeoutExpired:
        raise ToolError("TLC trace validation timed out on %s" % trace_path)
    finally:
        shutil.rmtree(md, ignore_errors=True)
    out = r.stdout
    results = []
    # TLC pretty-prints long tuples over several lines
    for m in re.finditer(r'<<\s*"RESULT",(.*?)>>', out, re.S):
        parts = split_top(" ".join(m.group(1).split()))
        results.append({"id": parts[0].strip('"'), "viol": parse_tla_set(parts[1]),
                        "sanity": parse_tla_set(parts[2]), "extra": parts[3:]})
    accepted = '<<"ACCEPTED"' in out
    unmatched = None
    um = re.search(r'<<"UNMATCHED", (\d+), (.*)>>', out)
    if um:
        unmatched = {"index": int(um.group(1)), "event": um.group(2)[:600]}
    m = STATES_RE.findall(out)
    states = int(m[-1][1]) if m else 0
    inv = re.search(r"Invariant (\w+) is violated", out)
    return {"results": results, "accepted": accepted, "unmatched": unmatched, "states": states,
            "inv_violated": inv.group(1) if inv else None, "out": out}


def shard_trace(path, nshards, outdir, boundary='"e":"reset"'):
    """split an NDJSON trace at scenario boundaries into <= nshards files"""
    blocks, cur = [], []
    with open(path) as f:
        for line in f:
            if boundary in line and cur:
                blocks.append(cur)
                cur = []
            cur.append(line)
    if cur:
        blocks.append(cur)
    nshards = max(1, min(nshards, len(blocks)))
    # balance by number of lines
    shards = [[] for _ in range(nshards)]
    sizes = [0] * nshards
    for b in sorted(blocks, key=len, reverse=True):
        i = sizes.index(min(sizes))
        shards[i].extend(b)
        sizes[i] += len(b)
    paths = []
    for i, s in enumerate(shards):
        p = os.path.join(outdir, "shard%d.ndjson" % i)
        with open(p, "w") as f:
            f.writelines(s)
        paths.append(p)
    return paths, blocks


def validate_sharded(module, cfg, trace_path, name, nshards=12):
    d = workdir("shards_" + name)
    paths, blocks = shard_trace(trace_path, nshards, d)
    with ThreadPoolExecutor(max_workers=len(paths)) as ex:
        futs = [ex.submit(tlc_trace, module, cfg, p, "%s_%d" % (name, i)) for i, p in enumerate(paths)]
        res = [f.result() for f in futs]
    results, states = [], 0
    for p, r in zip(paths, res):
        if not r["accepted"]:
            log(r["out"][-2500:])
            raise ToolError("trace not consumable by %s (%s): first unmatched event %s, invariant %s -- the "
                            "harness / kernel model disagree about the environment; this is a tool error, "
                            "not a violation" % (module, p, r["unmatched"], r["inv_violated"]))
        results.extend(r["results"])
        states += r["states"]
    return results, states, blocks


# ------------------------------------------------------------------ findings / evidence
def load_findings():
    p = os.path.join(ROOT, "known_findings.json")
    if not os.path.exists(p):
        return []
    return json.load(open(p)).get("findings", [])


def save_replay(pid, payload):
    os.makedirs(REPLAYS, exist_ok=True)
    h = hashlib.sha1(json.dumps(payload, sort_keys=True).encode()).hexdigest()[:12]
    p = os.path.join(REPLAYS, "%s-%s.json" % (pid, h))
    with open(p, "w") as f:
        json.dump(payload, f, indent=1)
    return p


def write_evidence(pid, tier, seed, coverage, assumptions, wall_s, violations, level="model_checking"):
    os.makedirs(EVID, exist_ok=True)
    ev = {"property_id": pid, "tier": tier, "seed": seed, "level": level, "coverage": coverage,
          "assumptions": assumptions, "wall_s": round(wall_s, 1), "violations": violations}
    with open(os.path.join(EVID, pid + ".json"), "w") as f:
        json.dump(ev, f, indent=1)
    return ev


def finish(pid, new_violations, known_hits):
    """print KNOWN-FINDING / VIOLATION lines and return the exit status"""
    for k in known_hits:
        print("KNOWN-FINDING: property=%s %s" % (pid, k))
    for (what, path) in new_violations:
        print("VIOLATION property=%s replay=%s" % (pid, path))
        log("  -> " + what)
    sys.stdout.flush()
    return 1 if new_violations else 0
