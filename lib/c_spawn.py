"""C05, C06, C07, C08, C15, C17, C18: launches on the real kernel.  Every libc call Popen::create makes (in the
parent and inside the forked child) is logged / optionally failed, the reporting child describes what it sees,
and TLC validates the recorded execution against SpawnTrace.tla: the descriptor-table model must predict the
child's reported table, and the monitors of SpawnEnv decide the verdict."""
import json
import os
import subprocess
import time

from . import launch_gen, path_gen, spawn_scen
from .common import (run_harness, BIN, ToolError, build_harness, finish, load_findings, log, save_replay, tlc_mc,
                     validate_sharded, workdir, write_evidence, WORK)

PREFIX = {p: p + "_" for p in ("C05", "C06", "C07", "C08", "C15", "C17", "C18")}


def scenarios(pid, tier, seed):
    big = tier == "thorough"
    os.makedirs(spawn_scen.SP, exist_ok=True)
    os.chmod(spawn_scen.SP, 0o777)
    if pid == "C05":
        return spawn_scen.fam_wiring(seed, big)
    if pid == "C06":
        return spawn_scen.fam_argv(seed, big)
    if pid == "C07":
        return (spawn_scen.fam_faults(seed, big) + spawn_scen.fam_path(seed, False)[-8:]
                + [x for x in spawn_scen.fam_argv(seed, False) if x["class"] == "nul"])
    if pid == "C08":
        return spawn_scen.fam_leak(seed, big) + spawn_scen.fam_wiring(seed, False)[::5] + spawn_scen.fam_eofrace(seed, big)
    if pid == "C15":
        return spawn_scen.fam_path(seed, big) + spawn_scen.fam_path_noslash(seed)
    if pid == "C17":
        return (spawn_scen.fam_alloc(seed, big) + spawn_scen.fam_path(seed, big)
                + spawn_scen.fam_faults(seed, False)[::3] + spawn_scen.fam_wiring(seed, False)[::7]
                # (an exec that fails once -- e.g. the program file is still open for writing, ETXTBSY -- and whatever the
                # library does next)
                + [dict(x, id=x["id"] + "-txtbsy", fault=dict(x["fault"], errno=26)) for x in spawn_scen.fam_faults(seed, False)
                   if x.get("fault", {}).get("kind") == "execve" and x["fault"]["errno"] == 13])
    if pid == "C18":
        # (also through the PATH search: attempts that fail before the one that starts the program)
        sig = spawn_scen.fam_signals(seed, big)
        # (the very first launch of the process happens while SIGPIPE is at its default: whatever the library remembers from
        # its first launch must not be taken for the state of later ones)
        sig.sort(key=lambda x: 0 if x.get("sigpipe") == "dfl" else 1)
        return (sig + spawn_scen.fam_path(seed, False)[::3]
                + [x for x in spawn_scen.fam_faults(seed, False) if x.get("fault", {}).get("kind") == "signal"]
                # ... and with an identity / process group of its own asked for
                + [x for x in spawn_scen.fam_argv(seed, False) if x["class"].startswith("identity")])
    raise ToolError("no spawn scenarios for " + pid)


def run_raw(scs, tag):
    """run spawn_replay on the scenarios and validate the trace; returns (results, states, blocks by id, note)"""
    wd = workdir("spawn_" + tag)
    scen_path = os.path.join(wd, "scen.ndjson")
    with open(scen_path, "w") as f:
        for s in scs:
            f.write(json.dumps(s) + "\n")
    trace_path = os.path.join(wd, "trace.ndjson")
    r = run_harness([os.path.join(BIN, "spawn_replay"), scen_path, trace_path], 1500)
    if r.returncode != 0:
        log(r.stderr[-3000:])
        raise ToolError("spawn_replay failed with status %d" % r.returncode)
    note = open(trace_path + ".summary").read().strip()
    if note.endswith("seen: 0"):
        raise ToolError("interposition is silent")
    results, tv_states, blocks = validate_sharded("SpawnTrace.tla", "SpawnTrace.cfg", trace_path, "spawn_" + tag)
    for r in results:
        if r["sanity"]:
            raise ToolError("descriptor-table model disagrees with the kernel in %s: %s" % (r["id"], r["sanity"]))
    return results, tv_states, {json.loads(b[0])["id"]: b for b in blocks}, note


def run(pid, tier, seed, replay=None):
    t0 = time.time()
    build_harness()
    wd = workdir("spawn_" + pid)
    mc = []
    if replay is None:
        scs = scenarios(pid, tier, seed)
        if pid == "C07":
            # the control flow of create()/drop around one launch with a failure at any one step (Launch.tla), and
            # every one of its behaviours replayed into the real code
            r = tlc_mc("Launch.tla", "MC_Launch.cfg", "C07_Launch", workers=4)
            mc.append({k: r[k] for k in ("cfg", "states", "distinct", "ok", "error", "wall_s")})
            log("[mc] MC_Launch.cfg: %d distinct states, ok=%s (%.1fs)" % (r["distinct"], r["ok"], r["wall_s"]))
            gen = launch_gen.generate()
            log("[gen] %d launches from the %d failure plans of Launch.tla" % (len(gen), len({json.dumps(g["model"], sort_keys=True) + str(g["detached"]) + str(g.get("fault", {}).get("errno")) for g in gen})))
            scs = scs + gen
        if pid == "C15":
            # the PATH search itself (PathSearch.tla): model-checked over every PATH shape, and every shape replayed on a
            # real directory tree
            cfgp = "MC_PathSearch_t.cfg" if tier == "thorough" else "MC_PathSearch.cfg"
            r = tlc_mc("PathSearch.tla", cfgp, "C15_PathSearch", workers=4)
            mc.append({k: r[k] for k in ("cfg", "states", "distinct", "ok", "error", "wall_s")})
            log("[mc] %s: %d distinct states, ok=%s (%.1fs)" % (cfgp, r["distinct"], r["ok"], r["wall_s"]))
            shapes = path_gen.generate()
            gen = path_gen.scenarios(spawn_scen.PathMaker("pathgen", "g"), shapes, every=1 if tier == "thorough" else 2)
            log("[gen] %d launches from the %d PATH shapes of PathSearch.tla" % (len(gen), len(shapes)))
            scs = scs + gen
        for cfg in {"C05": ["MC_Spawn_1.cfg"], "C07": ["MC_Spawn_1.cfg", "MC_Spawn_2a.cfg"], "C08": ["MC_Spawn_2a.cfg"]}.get(pid, []):
            r = tlc_mc("MCSpawn.tla", cfg, "%s_%s" % (pid, cfg[:-4]), workers=8)
            mc.append({k: r[k] for k in ("cfg", "states", "distinct", "ok", "error", "wall_s")})
            log("[mc] %s: %d distinct states, ok=%s (%.1fs)" % (cfg, r["distinct"], r["ok"], r["wall_s"]))
    else:
        scs = [json.load(open(replay))["scenario"]]
    by_id = {s["id"]: s for s in scs}
    scen_path = os.path.join(wd, "scen.ndjson")
    with open(scen_path, "w") as f:
        for s in scs:
            f.write(json.dumps(s) + "\n")
    trace_path = os.path.join(wd, "trace.ndjson")
    r = run_harness([os.path.join(BIN, "spawn_replay"), scen_path, trace_path], 1500)
    if r.returncode != 0:
        log(r.stderr[-3000:])
        raise ToolError("spawn_replay failed with status %d" % r.returncode)
    try:
        note = open(trace_path + ".summary").read().strip()
    except OSError:
        raise ToolError("spawn_replay wrote no summary")
    if note.endswith("seen: 0"):
        raise ToolError("interposition is silent")
    log("[replay] " + note)
    results, tv_states, blocks = validate_sharded("SpawnTrace.tla", "SpawnTrace.cfg", trace_path, "spawn_" + pid)
    blk = {json.loads(b[0])["id"]: b for b in blocks}
    if len(results) != len(blk):
        raise ToolError("validated %d launches but recorded %d" % (len(results), len(blk)))
    findings = [f for f in load_findings() if f["property"] == pid and f["status"] == "known"]
    new, known_hits, others, seen = [], set(), {}, set()
    nontrivial = set()
    order = {s["id"]: i for i, s in enumerate(scs)}
    results.sort(key=lambda r: order.get(r["id"], 1 << 30))
    damaged = None
    for r in results:
        if r["sanity"] and any(v.startswith(PREFIX[pid]) for v in r["viol"]):
            # the descriptor tables disagree AND a monitor of this property fired in the same launch: the code did
            # something to the descriptors behind the model's back (e.g. opened a file in an un-interposed way) and it
            # shows; report the violation, judge nothing after it
            pass
        elif r["sanity"]:
            if new:
                # a violation found earlier (e.g. the parent's own stdout got closed) has damaged the harness
                # process; what follows is unreliable and is not judged
                damaged = r["id"]
                break
            raise ToolError("descriptor-table model disagrees with the kernel in %s: %s" % (r["id"], r["sanity"]))
        sc = by_id[r["id"]]
        b = blk[r["id"]]
        if any('"n":"fork"' in ln for ln in b):
            nontrivial.add(r["id"])
        for v in r["viol"]:
            if not v.startswith(PREFIX[pid]):
                others[v] = others.get(v, 0) + 1
                continue
            sig = "%s/%s" % (v, sc.get("class", "?"))
            hit = [f for f in findings if f["signature"] == sig]
            if hit:
                known_hits.add(hit[0]["what"])
                continue
            if sig in seen:
                continue
            seen.add(sig)
            path = save_replay(pid, {"property": pid, "monitor": v, "signature": sig, "engine": "spawn",
                                     "scenario": sc, "trace": [json.loads(x) for x in b]})
            new.append(("%s fired in launch %s (%s)" % (v, r["id"], sig), path))
    extra_traces = 0
    if pid == "C08" and replay is None and not damaged:
        # every stage of a pipeline, under every terminator (incl. capture()'s stderr pipe)
        from . import api_scen, c_api
        pscs = api_scen.fam_pipelines(seed, tier == "thorough")[::(1 if tier == "thorough" else 2)]
        # the same with standard descriptors of the parent closed: the connecting pipes and capture()'s stderr pipe are
        # created on -- and moved away from -- the numbers 0-2
        cl = [dict(x, id=x["id"] + "-closed", closed_std=c) for x, c in
              zip([y for y in pscs if y["term"] in ("capture", "communicate", "popen") and y["stdin"] != "inherit"
                   and y["stdout"] != "inherit" and y["stderr"] != "inherit"][:18], [[0], [0, 1], [0, 1, 2]] * 6)]
        pscs += cl
        pscs += api_scen.fam_race(seed, tier == "thorough")
        presults, pstates, pblocks, pnote = c_api.run_api(pid, tier, seed, pscs, "C08pl")
        pnew, pknown, pothers, _, _ = c_api.classify(pid, pscs, presults, pblocks, "C08_", "api")
        new.extend(pnew)
        known_hits.update(pknown)
        tv_states += pstates
        extra_traces = len(presults)
        note += "; " + pnote
    if pid == "C18" and replay is None and not damaged:
        # every stage of a pipeline starts with a clean signal state too
        from . import api_scen, c_api
        pscs = api_scen.fam_pipelines(seed, tier == "thorough")[::(2 if tier == "thorough" else 6)]
        for j, x in enumerate(pscs):
            if j % 2 == 0:
                x["mask"] = [10, 15, 17, 2]   # the calling thread has signals blocked
        # two threads launching at the same time, in tight loops (the kernel picks the interleavings)
        pscs += [{"id": "stress%d" % j, "kind": "stress", "class": "stress", "launches": 120 if tier == "thorough" else 60,
                  "detached": False} for j in range(8 if tier == "thorough" else 4)]
        presults, pstates, pblocks, pnote = c_api.run_api(pid, tier, seed, pscs, "C18pl")
        pnew, pknown, pothers, _, _ = c_api.classify(pid, pscs, presults, pblocks, "C18_", "api")
        new.extend(pnew)
        known_hits.update(pknown)
        tv_states += pstates
        extra_traces += len(presults)
        note += "; " + pnote
    if pid == "C06" and replay is None and not damaged:
        # the same observations for commands assembled through the Exec builder (what the child sees is C06's
        # subject whichever API built the command): the plain model of Builder.tla predicts argv / environ / cwd
        from . import api_scen, c_builder
        bscs = api_scen.fam_builder_env(seed, tier == "thorough")
        bres, bstates = c_builder.run_sequences(bscs, "C06b")
        bmap = {"C16_environment_edits": "C06_env_exact", "C16_arguments_in_order": "C06_argv_exact", "C16_cwd": "C06_cwd"}
        bseen = set()
        bby = {x["id"]: x for x in bscs}
        for r in bres:
            for v in r["viol"]:
                if v in bmap and bmap[v] not in bseen:
                    bseen.add(bmap[v])
                    path = save_replay(pid, {"property": pid, "monitor": bmap[v], "signature": bmap[v] + "/builder",
                                             "engine": "builder", "scenario": bby[r["id"]]})
                    new.append(("%s fired for builder sequence %s" % (bmap[v], r["id"]), path))
        tv_states += bstates
        # Windows variant: the environment block (format_env_block extracted from the source) read back by WinEnv.tla
        from . import c_quote
        r = tlc_mc("MCWinEnv.tla", "MC_WinEnv_t.cfg" if tier == "thorough" else "MC_WinEnv.cfg", "C06_winenv", workers=4)
        mc.append({k: r[k] for k in ("cfg", "states", "distinct", "ok", "error", "wall_s")})
        log("[mc] %s: %d requests, ok=%s (%.1fs)" % (r["cfg"], r["distinct"], r["ok"], r["wall_s"]))
        wcases = c_quote.win_env_cases(seed, tier == "thorough")
        wres, wstates = c_quote.run_cases(wcases, "C06env")
        wby = {x["id"]: x for x in wcases}
        wseen = set()
        for r in wres:
            for v in r["viol"]:
                if v.startswith("C06_") and v not in wseen:
                    wseen.add(v)
                    path = save_replay(pid, {"property": pid, "monitor": v, "signature": v + "/winenv", "engine": "quote",
                                             "scenario": wby[r["id"]]})
                    new.append(("%s fired for the Windows environment block of request %s" % (v, r["id"]), path))
        tv_states += wstates
        extra_traces += len(wres)
        extra_traces += len(bres)
    refinement = {}
    if pid == "C07" and replay is None:
        same, drift = 0, []
        for sid, sc in by_id.items():
            if "model" in sc and sid in blk:
                d = launch_gen.compare(sc, blk[sid])
                if d is None:
                    same += 1
                else:
                    drift.append({"launch": sid, "difference": d})
        refinement = {"behaviours_of_Launch_tla_replayed": same + len(drift), "same_outcome_as_model": same,
                      "drift_examples": drift[:5]}
        if drift:
            log("MODEL-DRIFT property=C07: %d of %d replayed behaviours of Launch.tla ended otherwise than the model predicts "
                "(first: %s: %s) -- informational, the verdict comes from the monitors" % (len(drift), same + len(drift), drift[0]["launch"], drift[0]["difference"]))
        else:
            log("[gen] all %d replayed behaviours of Launch.tla ended as the model predicts" % same)
    if pid == "C15" and replay is None:
        same, drift = 0, []
        for sid, sc in by_id.items():
            if "model" in sc and sid in blk:
                d = path_gen.compare(sc, blk[sid])
                if d is None:
                    same += 1
                else:
                    drift.append({"launch": sid, "difference": d})
        refinement = {"behaviours_of_PathSearch_tla_replayed": same + len(drift), "same_outcome_as_model": same,
                      "drift_examples": drift[:5]}
        if drift:
            log("MODEL-DRIFT property=C15: %d of %d replayed PATH shapes of PathSearch.tla ended otherwise than the model predicts "
                "(first: %s: %s) -- informational, the verdict comes from the monitors" % (len(drift), same + len(drift), drift[0]["launch"], drift[0]["difference"]))
        else:
            log("[gen] all %d replayed PATH shapes of PathSearch.tla ended as the model predicts" % same)
    samples = [{"scenario": by_id[i], "trace_head": [json.loads(x) for x in blk[i][1:10]]} for i in list(blk)[:2]]
    cov = {
        "states": max(1, sum(m["distinct"] for m in mc) + tv_states),
        "transitions": max(1, sum(m["states"] for m in mc) + tv_states),
        "traces_validated_against_impl": len(results) + extra_traces,
        "samples": samples,
        "evaluations": len(results) + extra_traces,
        "distinct_nontrivial": len(nontrivial),
        "rule": "one evaluation = one launch scenario executed with the real Popen::create on the real kernel and "
                "validated by TLC against SpawnTrace.tla; non-trivial = the launch got as far as fork()",
        "exhaustive": False,
        "model_checking": mc,
        "refinement": refinement,
        "trace_validation_states": tv_states,
        "monitors_of_other_properties_fired": others,
        "replay_note": note,
        "stopped_judging_at": damaged or "",
    }
    assumptions = [
        "descriptor-table semantics as in spec/SpawnEnv.tla (pipe, fcntl FD_CLOEXEC, dup2 clears the flag, close, fork "
        "copies, exec drops close-on-exec entries); the model's predicted table is compared with what the new "
        "program image reports on every launch",
        "an open file description is identified by (inode, access mode, offset); passed files are opened at unique offsets",
        "link-time interposition reaches the library's libc calls in the parent and in the forked child",
        "runs as root (identity cases); /proc mounted",
    ]
    write_evidence(pid, tier, seed, cov, assumptions, time.time() - t0, len(new))
    return finish(pid, new, sorted(known_hits))
