"""Scenario families for the child-lifecycle checks (C09-C12): histories of API calls on a real Popen whose
child pid and clock are virtual."""
import random

MS = 1_000_000
S = 1_000_000_000
DAY = 86_400 * S
BACKOFF_ENDS = [1, 3, 7, 15, 31, 63, 127, 227, 327]  # ms at which the 1..100 ms doubling sleeps end


def status_menu():
    m = [{"k": "exited", "v": c} for c in range(256)]
    m += [{"k": "signaled", "v": s} for s in list(range(1, 32)) if s not in (17, 18, 19, 20, 21, 22, 23, 28)]
    # the signals whose default action dumps core, with the "core dumped" bit set in the wait status
    m += [{"k": "signaled", "v": s, "core": True} for s in (3, 4, 5, 6, 7, 8, 11, 24, 25, 31)]
    return m


def fam_history(seed, n, all_statuses=True):
    """C09/C10: every exit code and fatal signal, random query histories, exits / external reaps / pid reuse
    placed anywhere relative to the calls."""
    rng = random.Random(seed * 6151 + 11)
    sts = status_menu()
    out = []
    i = 0
    pool = list(sts) if all_statuses else []
    while len(out) < n or pool:
        st = pool.pop() if pool else rng.choice(sts)
        r = rng.random()
        at = None if r < 0.12 else rng.choice([0, 1, 500_000, MS, 2 * MS, 5 * MS + 1, 40 * MS, 300 * MS, 2 * S])
        sc = {"id": "h%d" % i, "exit": dict(st, at=at), "ops": [], "drop": True}
        i += 1
        if at is not None and rng.random() < 0.3:
            sc["xreap"] = rng.choice([0, 1000, 3 * MS, 200 * MS])
            if rng.random() < 0.6:
                sc["reuse"] = rng.choice([0, 1000, 50 * MS])
        if rng.random() < 0.2:
            sc["ignores_term"] = True
        if rng.random() < 0.3:
            sc["kill_latency"] = rng.choice([1000, MS, 30 * MS])
        if rng.random() < 0.2:
            sc["detached"] = True
        nops = rng.randint(2, 9)
        will_die = at is not None
        for _ in range(nops):
            o = rng.choice(["poll", "poll", "wait_timeout", "wait_timeout", "pid", "exit_status", "terminate",
                            "kill", "send_signal", "detach", "delay", "delay", "wait"])
            if o == "wait":
                if not will_die:
                    continue
                sc["ops"].append(["wait"])
            elif o == "wait_timeout":
                sc["ops"].append(["wait_timeout", rng.choice([0, 1, 300_000, MS, 3 * MS, 20 * MS, 250 * MS, 3 * S])])
            elif o == "delay":
                sc["ops"].append(["delay", rng.choice([1, 1000, MS, 4 * MS, 100 * MS, S])])
            elif o == "send_signal":
                sig = rng.choice([0, 1, 2, 10, 12, 15, 9, 64, 65, 128, 256, 265, 271, -241, -1, 2 ** 31 - 1])
                sc["ops"].append(["send_signal", sig])
                if sig in (1, 2, 10, 12, 9, 64) or (sig == 15 and not sc.get("ignores_term")):
                    will_die = True
            elif o == "kill":
                sc["ops"].append(["kill"])
                will_die = True
            elif o == "terminate":
                sc["ops"].append(["terminate"])
                if not sc.get("ignores_term"):
                    will_die = True
            else:
                sc["ops"].append([o])
        if rng.random() < 0.5 and will_die:
            sc["ops"] += [["wait"], ["pid"], ["exit_status"], rng.choice([["terminate"], ["kill"], ["send_signal", 10]]),
                          ["poll"]]
        out.append(sc)
    # a signal handler interrupts the handle's waitpid (EINTR): nothing has been learnt about the child; the
    # interrupted call may fail with that error, and the caller calls again
    for j, (ops, eat, at) in enumerate([
        ([["wait"], ["wait"], ["poll"], ["wait"], ["pid"], ["exit_status"]], [1], 50 * MS),
        ([["wait"], ["wait"], ["wait"], ["wait"]], [1, 2, 3], 5 * MS),
        ([["poll"], ["poll"], ["wait_timeout", 20 * MS], ["wait_timeout", 20 * MS], ["wait"], ["wait"]], [1, 3, 5], 8 * MS),
        ([["wait_timeout", 3 * MS], ["wait"], ["wait"], ["kill"], ["wait"]], [2, 4], None),
        ([["terminate"], ["wait"], ["wait"], ["wait"]], [1, 2], None),
    ]):
        out.append({"id": "h-eintr%d" % j, "exit": {"k": "exited", "v": 7, "at": at}, "ops": ops, "drop": True,
                    "eintr_at": eat, "kill_latency": 2 * MS})
    # the handle is used from another thread than the one that created it (a monitor thread, a Popen sent over a channel)
    for j, (ops, at) in enumerate([
        ([["poll"], ["poll"], ["wait_timeout", 3 * MS], ["pid"], ["wait"], ["exit_status"]], 20 * MS),
        ([["wait_timeout", 50 * MS], ["poll"], ["wait"]], 10 * MS),
        ([["poll"], ["kill"], ["wait"], ["poll"]], None),
        ([["wait"], ["poll"], ["terminate"]], 5 * MS),
    ]):
        out.append({"id": "h-thread%d" % j, "exit": {"k": "exited", "v": 9, "at": at}, "ops": ops, "drop": True,
                    "other_thread": True, "kill_latency": MS})
    # a child started in a process group of its own: signals still go to the child alone, not to its group
    for j, ops in enumerate([[["terminate"], ["wait"]], [["kill"], ["wait"]], [["send_signal", 10], ["poll"], ["kill"], ["wait"]],
                             [["poll"], ["send_signal", 0], ["terminate"], ["wait_timeout", 5 * MS], ["kill"], ["wait"]]]):
        out.append({"id": "h-pgrp%d" % j, "exit": {"k": "exited", "v": 0, "at": None}, "ops": ops, "drop": True, "setpgid": True,
                    "kill_latency": MS})
    # numbers that are no signal must be refused by the kernel as they are -- not reach the child as another signal
    for j, sig in enumerate([256, 265, 271, -241, 65536 + 9, 2 ** 31 - 1, -(2 ** 31)]):
        out.append({"id": "h-badsig%d" % j, "exit": {"k": "exited", "v": 3, "at": None},
                    "ops": [["poll"], ["send_signal", sig], ["poll"], ["send_signal", sig], ["kill"], ["wait"]], "drop": True})
    # the application ignores SIGCHLD: the kernel reaps the child the moment it exits, no status can be had -- and none is
    # made up
    for j, (st, ops) in enumerate([
        ({"k": "exited", "v": 7}, [["poll"], ["delay", 20 * MS], ["poll"], ["wait"], ["exit_status"], ["pid"]]),
        ({"k": "signaled", "v": 15}, [["wait_timeout", 50 * MS], ["wait"], ["poll"]]),
        ({"k": "exited", "v": 0}, [["delay", 20 * MS], ["wait"], ["terminate"], ["poll"]]),
    ]):
        out.append({"id": "h-sigchld%d" % j, "exit": dict(st, at=10 * MS), "xreap": 0, "sigchld_ign": True, "ops": ops, "drop": True})
    # job control: a stopped child is alive -- no status may be reported for it
    for j, ops in enumerate([
        [["send_signal", 19], ["poll"], ["pid"], ["wait_timeout", 5 * MS], ["send_signal", 18], ["poll"], ["kill"], ["wait"]],
        [["send_signal", 20], ["delay", 3 * MS], ["wait_timeout", 0], ["poll"], ["terminate"], ["send_signal", 18], ["wait"], ["pid"]],
        [["poll"], ["send_signal", 19], ["send_signal", 18], ["send_signal", 19], ["poll"], ["exit_status"], ["kill"], ["wait"]],
    ]):
        for at in (None, 50 * MS):
            out.append({"id": "h-stop%d%s" % (j, "" if at is None else "-exit"), "exit": {"k": "exited", "v": 42, "at": at},
                        "ops": ops, "drop": True})
    return out


def fam_timing(seed, n_random, big):
    """C11: wait_timeout(d) for d from 0 to weeks x the child's exit placed before the call, inside every
    back-off interval (first / middle / last nanosecond), exactly at the deadline, or never."""
    rng = random.Random(seed * 12289 + 13)
    durs = [0, 1, 500_000, MS, 7 * MS, 150 * MS, 2 * S, 3 * 3600 * S]
    # beyond 2^32 ms (49.7 days): a millisecond count narrowed to 32 bits shows
    huge = [(2**32) * MS, (2**32) * MS + 250 * MS, 60 * DAY, 100 * DAY + 1]
    if big:
        durs += [26 * DAY, 30 * DAY]
    out = []
    i = 0
    for d in durs:
        exits = [None, 0]
        prev = 0
        for e in BACKOFF_ENDS:
            for t in (prev * MS, (prev * MS + e * MS) // 2, e * MS - 1):
                if t <= d + 10 * MS:
                    exits.append(t)
            prev = e
        exits += [d, d + 1, max(0, d - 1)]
        if d > 2 * S:
            exits += [d // 2, 3 * 3600 * S - 5 * MS if d >= 3 * 3600 * S else d // 3]
        for e in sorted(set(x for x in exits if x is not None)) + [None]:
            for ov in (0, 50_000):
                if ov and d > 2 * S:
                    continue  # sleeps with overshoot are not run-length encoded; keep them to short waits
                if e is None and d > 3 * 3600 * S and not big:
                    continue
                pre = rng.choice([0, 0, 3 * MS])
                sc = {"id": "t%d" % i, "exit": {"k": "exited", "v": 7, "at": (None if e is None else e + pre)},
                      "ops": ([["delay", pre]] if pre else []) + [["wait_timeout", d], ["poll"], ["wait_timeout", d]],
                      "drop": True, "overshoot": ov}
                if e is None:
                    sc["ops"] += [["kill"], ["wait"]]
                i += 1
                out.append(sc)
    # time goes by while the library runs: every clock reading costs a little, so a deadline can fall between two
    # readings of one loop iteration (durations from below one reading to a few)
    for step in (40, 250):
        for d in (0, 1, 30, 40, 41, 79, 80, 100, 240, 250, 251, 600, 1000, 5000, 1_000_000 + 17):
            sc = {"id": "t%d" % i, "exit": {"k": "exited", "v": 5, "at": None}, "clock_step": step,
                  "ops": [["wait_timeout", d], ["poll"], ["wait_timeout", d], ["kill"], ["wait"]], "drop": True, "overshoot": 0}
            i += 1
            out.append(sc)
    # signals keep interrupting the sleeps between two status checks (a sampling profiler, an interval timer): the time
    # already slept counts, the call still reports the exit / the expiry when it is due
    for slice_ in (MS, 5 * MS, 30 * MS):
        for d, e in ((300 * MS, None), (2 * S, 300 * MS), (2 * S, None), (150 * MS, 149 * MS), (700 * MS, 2 * S)):
            sc = {"id": "t%d" % i, "exit": {"k": "exited", "v": 6, "at": e}, "sleep_slice": slice_, "sleep_eintr_max": 600,
                  "ops": [["wait_timeout", d], ["poll"], ["wait_timeout", d]], "drop": True, "overshoot": 0}
            if e is None or e > d:
                sc["ops"] += [["kill"], ["wait"]]
            i += 1
            out.append(sc)
    # the handle holds the child's stdout pipe and the child has closed its end of it (but lives on): the wait still sleeps
    for d, e in ((300 * MS, None), (2 * S, 700 * MS), (5 * S, None)):
        sc = {"id": "t%d" % i, "exit": {"k": "exited", "v": 8, "at": e}, "pipe_stdout": True,
              "ops": [["wait_timeout", d], ["poll"], ["wait_timeout", d]], "drop": True, "overshoot": 0}
        if e is None:
            sc["ops"] += [["kill"], ["wait"]]
        i += 1
        out.append(sc)
    # the wall clock is stepped (NTP, `date -s`, a resumed VM) while the call waits: durations are not calendar time
    for by in (3600 * S, -3600 * S, 2 * S, -S):
        for d, e in ((2 * S, None), (2 * S, 1500 * MS), (300 * MS, None), (10 * S, 9 * S)):
            sc = {"id": "t%d" % i, "exit": {"k": "exited", "v": 4, "at": e}, "rt_jump": [100 * MS, by],
                  "ops": [["wait_timeout", d], ["poll"], ["wait_timeout", d]], "drop": True, "overshoot": 0}
            if e is None:
                sc["ops"] += [["kill"], ["wait"]]
            i += 1
            out.append(sc)
    for d in huge:
        for e in (None, 0, 2 * S, d // 2, d - 1, d):
            if e is None and not big:
                # "never": 10^7 .. 10^8 back-off iterations, thorough tier only
                continue
            if not big and e not in (0, 2 * S) and d != huge[0]:
                # (an exit half-way through or at the end of weeks: tens of millions of iterations each; at the quick
                # tier for the shortest of the huge durations only)
                continue
            sc = {"id": "t%d" % i, "exit": {"k": "exited", "v": 9, "at": e},
                  "ops": [["wait_timeout", d], ["poll"], ["wait_timeout", d]], "drop": True, "overshoot": 0}
            if e is None:
                sc["ops"] += [["kill"], ["wait"]]
            i += 1
            out.append(sc)
    for _ in range(n_random):
        d = rng.choice(durs[:8]) + rng.choice([0, 1, 999, 123_456])
        e = rng.choice([None, rng.randint(0, max(1, min(d * 2, 5 * S)))])
        sc = {"id": "t%d" % i, "exit": {"k": "signaled", "v": 15, "at": e},
              "ops": [["poll"], ["wait_timeout", d], ["delay", rng.choice([0, MS, 90 * MS])], ["wait_timeout", d // 2],
                      ["poll"]], "drop": True, "overshoot": (rng.choice([0, 50_000]) if d <= 2 * S else 0)}
        sc["ops"] = [o for o in sc["ops"] if not (o[0] == "delay" and o[1] == 0)]
        if e is None:
            sc["ops"] += [["terminate"], ["wait"]]
        i += 1
        out.append(sc)
    return out


def fam_drop(seed, n):
    """C12 (Popen itself): drop of detached / non-detached handles at every point of the child's life"""
    rng = random.Random(seed * 24593 + 17)
    out = []
    i = 0
    # a signal handler interrupts the wait that the drop performs: the child must be reaped all the same
    for at in (0, 5 * MS, None):
        for eat in ([1], [1, 2]):
            sc = {"id": "dki%d" % i, "exit": {"k": "exited", "v": 1, "at": at}, "ops": ([["kill"]] if at is None else []),
                  "drop": True, "eintr_at": eat, "kill_latency": MS}
            i += 1
            out.append(sc)
    # the usual "took too long: kill it, forget it" pattern, with a child that needs a moment to die
    for pre in ([["kill"]], [["wait_timeout", 2 * MS], ["kill"]], [["terminate"]], [["kill"], ["poll"]], [["kill"], ["wait"]],
                [["send_signal", 9]], [["kill"], ["exit_status"], ["pid"]]):
        for lat in (0, 3 * MS):
            out.append({"id": "dk%d" % i, "exit": {"k": "exited", "v": 1, "at": None}, "ops": list(pre), "drop": True,
                        "kill_latency": lat})
            i += 1
    # the handle goes out of scope while its owner unwinds from a panic: it is waited for like any other -- no signal
    # nobody asked for, nothing left behind
    for at in (0, 5 * MS, 300 * MS):
        for pre in ([], [["poll"]], [["wait_timeout", 2 * MS]]):
            for det in (False, True):
                out.append({"id": "dp%d" % i, "exit": {"k": "exited", "v": 3, "at": at}, "ops": list(pre), "drop": True,
                            "drop_in_panic": True, "detached": det})
                i += 1
    for det in ("cfg", "call", None):
        for at in (None, 0, 5 * MS):
            for pre in ([], [["poll"]], [["delay", 10 * MS], ["poll"]], [["wait_timeout", 2 * MS]], [["terminate"]]):
                sc = {"id": "d%d" % i, "exit": {"k": "exited", "v": 1, "at": at}, "ops": list(pre), "drop": True}
                if det == "cfg":
                    sc["detached"] = True
                    # (every other one from a clone of the configuration: a template)
                    if i % 2:
                        sc["clone_cfg"] = True
                elif det == "call":
                    sc["ops"].insert(rng.randint(0, len(sc["ops"])), ["detach"])
                i += 1
                out.append(sc)
    return out
