#!/usr/bin/env python3
"""Regenerates /verif/MANIFEST.json from the table below (kept in one place so it stays valid)."""
import json
import os

ROOT = os.path.dirname(os.path.dirname(os.path.abspath(__file__)))
props = [json.loads(l)["id"] for l in open(os.path.join(ROOT, "properties.jsonl"))]

COMM_NOTE = ("Trusted: the kernel pipe/poll model of spec/CommEnv.tla (POSIX byte model, PIPE_BUF=4096, POLLERR/POLLHUP "
             "semantics measured on Linux), link-time interposition reaching every libc call of the library "
             "(canary-checked each run), TLC. Bounded constants in spec/MC_Comm_*.cfg; schedules beyond the exhaustive "
             "tiny cases are seeded samples.")
COMM_TECH = ("TLA+ spec (Comm.tla over CommEnv.tla) model-checked with TLC; real Communicator driven over a simulated "
             "kernel via libc interposition; every recorded execution validated by TLC against CommTrace.tla whose "
             "monitors decide")
PROC_NOTE = ("Trusted: the process-table model of spec/ProcEnv.tla, interposition of waitpid/kill/clock_gettime/"
             "clock_nanosleep (canary-checked), TLC. The child's pid and the clock are virtual: exit instants, external "
             "reaping and pid reuse are scheduled exactly. Bounded constants in spec/MC_Proc_*.cfg.")
PROC_TECH = ("TLA+ spec (Proc.tla over ProcEnv.tla) model-checked with TLC; real Popen driven through API histories with a "
             "virtual child pid and virtual clock via libc interposition; every recorded execution validated by TLC "
             "against ProcTrace.tla whose monitors decide")

CHECKS = {
    "C01": ("comm", "TLC explores every interleaving of the poll loop (Comm.tla) with every bounded child program: no "
            "deadlock, no monitor fires; the real Communicator::read is executed over the simulated kernel along "
            "exhaustive (tiny) and seeded schedules incl. all subsets of piped streams and capacities around the chunk "
            "size, and TLC validates each recorded trace against CommTrace.tla (C01_deadlock on a stuck state the "
            "kernel model confirms, C01_no_spin on no-progress system-call streaks / CPU spin).",
            COMM_NOTE, COMM_TECH, "DESIGN.md §4.2, §7 C01"),
    "C02": ("comm", "As C01 with short reads/writes enabled and self-describing stream units (1 B … 4096 B): TLC checks on "
            "every recorded execution that returned vectors are prefixes/complete copies of what the child wrote per "
            "stream, absent iff not piped, that stdin receives exactly the input once, and that stdin is closed before "
            "the library waits again.", COMM_NOTE, COMM_TECH, "DESIGN.md §4.2, §7 C02"),
    "C03": ("comm", "As C01 over sequences of size limits across successive read() calls: per-call total <= limit, "
            "continuity of per-stream data across calls, all-empty only at kernel-level EOF; limits around the chunk size "
            "at 1-, 2-byte and page units.", COMM_NOTE, COMM_TECH, "DESIGN.md §4.2, §7 C03"),
    "C04": ("comm", "As C01 under a virtual clock: limits 0 … 30 days incl. the i32::MAX ms poll boundary, "
            "silent/trickling/flooding children, children closing stdin on a full pipe; TLC checks TimedOut is truthful "
            "to 1 ms, at most two polls / I/O rounds after expiry, capture continuity across resumed reads.",
            COMM_NOTE, COMM_TECH, "DESIGN.md §4.2, §7 C04"),
    "C09": ("proc", "TLC explores all API histories (bounded) x exit / external-reap / pid-reuse placements on Proc.tla; a "
            "real Popen is driven through seeded histories covering every exit code 0..255 and every fatal signal with a "
            "virtual pid, and TLC validates each trace: reported status = kernel truth, never while running, final once "
            "reported, pid() absent afterwards, no waitpid/kill about the child afterwards, Undetermined (not an error) "
            "when reaped elsewhere.", PROC_NOTE, PROC_TECH, "DESIGN.md §4.4, §7 C09"),
    "C10": ("proc", "As C09 for terminate/kill/send_signal: every kill() issued names the child's pid with exactly the "
            "requested signal, exactly once, only inside a signalling call and only while the handle has not observed "
            "termination; afterwards the calls return Ok and issue nothing (so a recycled pid cannot be hit).",
            PROC_NOTE, PROC_TECH, "DESIGN.md §4.4, §7 C10"),
    "C11": ("proc", "As C09 under a virtual clock: wait_timeout(d) for d from 0 to 30 days with the exit placed before the "
            "call, in the first/middle/last ns of each back-off interval, at the deadline, or never; TLC checks poll "
            "issues only WNOHANG waits and no sleep, 'still running' is neither early nor more than 20 ms late, a status "
            "comes within 120 ms of the exit, a known status costs no system call, consecutive checks are separated by "
            "a sleep and their number is <= 20 + d/10ms (long steady back-off runs are run-length encoded).",
            PROC_NOTE, PROC_TECH, "DESIGN.md §4.4, §7 C11"),
}

SPAWN_NOTE = ("Trusted: the descriptor-table model of spec/SpawnEnv.tla (checked on every launch against the table the "
              "new program image reports), (inode, access mode, offset) as identity of an open file description, "
              "interposition in parent and forked child (canary-checked), the reporting child vchild, /proc. Runs as "
              "root. Scenario spaces are enumerated families + seeded samples, not all inputs.")
SPAWN_TECH = ("TLA+ descriptor-table/launch spec (SpawnEnv.tla, Spawn.tla) with TLC; real Popen::create on the real "
              "kernel with every libc call logged / fault-injected in parent and forked child and a self-reporting "
              "child; each recorded launch validated by TLC against SpawnTrace.tla whose monitors decide")
API_NOTE = ("Trusted: pipe identity by inode+direction as reported by stage programs, the watchdog's wait-for evidence "
            "(a hang counts only when the library waits for a child blocked on a pipe whose other end only the library "
            "holds, or a child holds a library pipe end above fd 2), interposition, TLC.")
API_TECH = ("TLA+ specs (ApiEnv.tla; Pipeline.tla / Drop.tla model-checked with TLC); real builder API on the real kernel "
            "with reporting stage programs; each recorded scenario validated by TLC against ApiTrace.tla whose "
            "monitors decide")
CHECKS.update({
    "C05": ("spawn", "All 5x5x5 redirection triples (+ one file shared by several streams, repeated spawns, spawns from "
            "threads that exit) are launched for real; TLC replays the logged pipe/fcntl/dup2/close/fork/exec calls on "
            "the descriptor-table model, requires the predicted table to equal the child's self-report, and checks "
            "that fds 0-2 are the requested open file descriptions, handles exist iff piped, invalid merges are "
            "logic errors without a fork, and the parent's own fds 0-2 are never closed/altered.",
            SPAWN_NOTE, SPAWN_TECH, "DESIGN.md §4.5, §7 C05"),
    "C06": ("spawn", "argv (empty, blank, quotes, non-UTF-8, long, many), executable override, environment lists with "
            "duplicates in every position (later wins, order kept; TLC computes the expected list), cwd, all 8 "
            "setuid/setgid/setpgid combinations as root, NUL in every position: the child's self-report must equal "
            "what the configuration demands; NUL must be rejected before any fork.",
            SPAWN_NOTE, SPAWN_TECH, "DESIGN.md §4.5, §7 C06"),
    "C07": ("spawn", "Fault plan: the k-th pipe/fcntl, fork, and each child-side step (chdir, dup2, setuid, setgid, "
            "setpgid, execve) is failed with sampled errnos, crossed with stream configurations and detached; plus "
            "natural failures (missing / non-executable / directory / garbage program, bad cwd). TLC checks: Ok iff "
            "the image started, Err carries the errno of the failing step, no child (zombie or running) and no "
            "descriptor of the attempt is left, the forked child never escapes back into the caller.",
            SPAWN_NOTE, SPAWN_TECH, "DESIGN.md §4.5, §7 C07"),
    "C08": ("spawn", "Launches while 0-3 earlier Popens and all their pipe ends stay alive, from threads, repeated, and "
            "every stage of pipelines under every terminator: no child holds (above fd 2) an end of a library-created "
            "pipe other than a duplicate of its own standard stream's end; a hang is attributed only on wait-for "
            "evidence (a child keeps a library pipe end open).", SPAWN_NOTE, SPAWN_TECH, "DESIGN.md §4.5, §7 C08"),
    "C15": ("spawn", "PATH shapes (1-5 entries; empty, duplicate, long, mode-000 entries; only-empty values) x candidate "
            "kinds (startable, missing, non-executable, directory, exec-format error) on real directory trees; names "
            "with a slash, empty and unset PATH, executable override. TLC computes the first startable entry from the "
            "configuration and compares with the executable that reported in (/proc/self/exe); nothing startable => "
            "OS error and nothing runs.", SPAWN_NOTE, SPAWN_TECH, "DESIGN.md §4.8, §7 C15"),
    "C17": ("spawn", "A counting global allocator, armed in the forked child, feeds the allocation count into every "
            "logged child-side system call; TLC requires it to be 0 at execve/_exit for long names, PATH shapes with "
            "the longest entry first/last, long cwd (> 384 bytes), big argv/env, all stream configurations, and on "
            "failing exec paths.", SPAWN_NOTE, SPAWN_TECH, "DESIGN.md §4.5, §7 C17"),
    "C18": ("spawn", "Every blockable signal alone and random subsets blocked in the spawning thread (also short-lived "
            "threads), parent SIGPIPE ignored / default: the child's signal mask and SIGPIPE disposition are sampled "
            "by an .init_array constructor before its runtime starts; TLC requires an empty mask and default SIGPIPE, "
            "also for every pipeline stage (C13 scenarios).", SPAWN_NOTE, SPAWN_TECH, "DESIGN.md §4.5, §7 C18"),
    "C12": ("api", "Every handle kind (Popen with pipes, stream_stdout/stderr/stdin adapters of commands and pipelines, "
            "join, capture) x child behaviour (exits early/late, reads to EOF, writes 300 KB, killed by signal) x drop "
            "point (nothing / some / all read) x detached: after a non-detached handle is gone all its children are "
            "reaped; a detached drop issues no waitpid and leaves the child; a drop that hangs is a violation when the "
            "watchdog proves the wait-for cycle through the handle's own pipe. Drop.tla model-checks Rust's drop order.",
            API_NOTE, API_TECH, "DESIGN.md §4.4/4.6, §7 C12"),
    "C13": ("api", "Pipelines of 2-5 reporting stages in every composition shape (left-assoc, pipeline|pipeline, "
            "iterator), stdin inherit/pipe/data/file, stdout inherit/pipe/file, all six terminators, 0..20000 lines: "
            "stage i's stdout and stage i+1's stdin are the two ends of one library pipe used by nobody else, input "
            "reaches only stage 1, output comes only from stage n, output = composition of the stage tags in order, all "
            "stderr lines arrive in the shared sink, status = last stage's, everything reaped at return.",
            API_NOTE, API_TECH, "DESIGN.md §4.6, §7 C13"),
    "C14": ("api", "The k-th command is not startable for every k, n in 2..4, stdin kind, terminator, detached or not: "
            "the error (ENOENT) is returned, exactly k+1 forks happen and only the first k stages ever report, the call "
            "does not hang (wait-for evidence), no zombie / running child / descriptor is left.",
            API_NOTE, API_TECH, "DESIGN.md §4.6, §7 C14"),
})

CHECKS.update({
    "C16": ("builder", "TLC checks, for every builder call sequence up to 4 (thorough: 5) calls over two keys / two values "
            "/ a parent environment, that the code's representation (Option<Vec> snapshot, push/retain, format_env "
            "de-duplication, set-once match tables, check_no_stdin_data) behaves as the plain command-description "
            "model allows; the real Exec is driven through all sequences of length <= 2 over a 50-call menu, seeded "
            "sequences up to 12 calls with clones anywhere and every terminator, and Exec::shell strings; TLC "
            "evaluates the plain model on each recorded sequence and compares refusals and the started program's "
            "argv/environ/cwd (or sh's exec arguments).",
            "Trusted: the three-valued plain model in spec/Builder.tla (identical repetitions and the documented "
            "capture-without-data panic are don't-cares), the reporting child, interposed execve for sh's argument "
            "vector, TLC.",
            "TLA+ refinement spec (Builder.tla: plain model vs code representation) model-checked with TLC; real Exec "
            "builder driven through call sequences with refusals caught and the child reporting; each recorded "
            "sequence validated by TLC against BuilderTrace.tla", "DESIGN.md §4.7, §7 C16"),
    "C19": ("quote", "ShQuote.tla transcribes display_escape/to_cmdline and a POSIX-shell tokeniser; TLC checks "
            "ShSplit(Render(argv)) = argv exhaustively over an 11-character alphabet with one representative per "
            "class (21k vectors incl. pipelines); the real Debug/to_cmdline_lossy output for every ASCII "
            "metacharacter, exhaustive short words, pipelines and long random arguments is parsed back by TLC with "
            "the same tokeniser (so another correct quoting style is accepted) and by the installed sh.",
            "Trusted: the shell tokeniser of spec/ShQuote.tla (cross-checked against the installed sh on a subset in "
            "every run: disagreement = tool error), TLC.",
            "TLA+ transcription + round-trip property model-checked with TLC; the specification's parser applied by "
            "TLC to the real rendering code's output (QuoteTrace.tla), plus the real sh", "DESIGN.md §4.9, §7 C19"),
    "C20": ("quote", "WinArgs.tla transcribes assemble_cmdline/append_quoted and the Microsoft argv parsing rules; TLC "
            "checks MsParse(Assemble(argv)) = argv exhaustively (strings up to 4, thorough 5, over letter, space, tab, "
            "newline, quote, backslash, non-ASCII); the functions extracted textually from /repo/src/popen.rs are "
            "compiled on Linux against a UTF-16 shim, run on exhaustive-small and random vectors (up to 40 units), "
            "and TLC parses their actual output back; NUL must be rejected.",
            "Trusted: the Microsoft parsing rules as transcribed in spec/WinArgs.tla, the textual extraction + UTF-16 "
            "shim (no Windows here), program name restricted to plain file names, TLC.",
            "TLA+ transcription + round-trip property model-checked with TLC; the specification's parser applied by "
            "TLC to the output of the repository's Windows code compiled against a shim (QuoteTrace.tla)",
            "DESIGN.md §4.9, §7 C20"),
})

ENGINES = [
    {"name": "comm", "path": "/verif/lib/c_comm.py", "serves_properties": ["C01", "C02", "C03", "C04"],
     "kind_free_text": "TLC model checking of spec/Comm.tla + trace validation (spec/CommTrace.tla) of the real "
                       "Communicator run over a simulated kernel (harness/src/csim.rs, comm_replay)"},
    {"name": "proc", "path": "/verif/lib/c_proc.py", "serves_properties": ["C09", "C10", "C11"],
     "kind_free_text": "TLC model checking of spec/Proc.tla + trace validation (spec/ProcTrace.tla) of a real Popen with "
                       "virtual child pid and clock (harness/src/psim.rs, proc_replay)"},
]

ENGINES += [
    {"name": "spawn", "path": "/verif/lib/c_spawn.py", "serves_properties": ["C05", "C06", "C07", "C08", "C15", "C17", "C18"],
     "kind_free_text": "real-kernel launches with logged/fault-injected libc calls (harness/src/slog.rs, spawn_replay, "
                       "vchild) validated by TLC against spec/SpawnTrace.tla (descriptor-table model SpawnEnv.tla)"},
    {"name": "api", "path": "/verif/lib/c_api.py", "serves_properties": ["C12", "C13", "C14"],
     "kind_free_text": "builder-level scenarios (pipelines, dropped handles) on the real kernel (api_replay, vchild "
                       "stages, wait-for watchdog) validated by TLC against spec/ApiTrace.tla"},
]
ENGINES += [
    {"name": "builder", "path": "/verif/lib/c_builder.py", "serves_properties": ["C16"],
     "kind_free_text": "TLC refinement check of spec/Builder.tla + real Exec builder call sequences validated against "
                       "spec/BuilderTrace.tla"},
    {"name": "quote", "path": "/verif/lib/c_quote.py", "serves_properties": ["C19", "C20"],
     "kind_free_text": "TLC exhaustive round-trip of spec/ShQuote.tla / spec/WinArgs.tla + the specification's parsers "
                       "applied to the real renderers' output (spec/QuoteTrace.tla, harness quote_replay, build.rs "
                       "extraction of the Windows functions)"},
]
NA_REASON = {}
DEFAULT_NA = ("check not built yet (build phase in progress); will be claimed once its TLA+ spec and conformance "
              "harness exist")


def main():
    m = {
        "version": 1,
        "setup_cmd": "./check --setup",
        "hooks": {"guard": "subprocess_verif",
                  "enable": "RUSTFLAGS='--cfg subprocess_verif' (set in /verif/harness/.cargo/config.toml); no hook "
                            "exists: all observation is done at the libc boundary, through the public API and by "
                            "reporting children",
                  "baseline_off_cmd": "cd /repo && cargo test --workspace --no-fail-fast --offline",
                  "source_commits": [], "add_only": True},
        "engines": [e for e in ENGINES if any(p in CHECKS for p in e["serves_properties"])],
        "checks": [],
        "not_applicable": [],
        "notes": "All checks: ./check <ID> [--tier quick|thorough] [--replay PATH]. Exit 0 held / 1 VIOLATION / 2 tool "
                 "error. known_findings.json lists fixed defects (F6, F7, ...) and known findings.",
    }
    for p in props:
        if p in CHECKS:
            eng, text, note, tech, ref = CHECKS[p]
            m["checks"].append({
                "property_id": p, "quick_cmd": "./check %s --tier quick" % p,
                "thorough_cmd": "./check %s --tier thorough" % p,
                "evidence_file": "/verif/evidence/%s.json" % p,
                "replay_cmd_template": "./check %s --replay {path}" % p, "engine": eng,
                "level_claimed": {"category": "model_checking", "text": text, "design_ref": ref},
                "level_note": note, "technique": tech})
        else:
            m["not_applicable"].append({"property_id": p, "reason": NA_REASON.get(p, DEFAULT_NA)})
    json.dump(m, open(os.path.join(ROOT, "MANIFEST.json"), "w"), indent=1)


if __name__ == "__main__":
    main()
