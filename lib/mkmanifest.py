#!/usr/bin/env python3
"""Regenerates /verif/MANIFEST.json from the table below (kept in one place so it stays valid)."""
import json
import os

ROOT = os.path.dirname(os.path.dirname(os.path.abspath(__file__)))
props = [json.loads(l)["id"] for l in open(os.path.join(ROOT, "properties.jsonl"))]

COMM_NOTE = ("Trusted: the kernel pipe/poll model of spec/CommEnv.tla (POSIX byte model, PIPE_BUF=4096, POLLERR/POLLHUP "
             "semantics measured on Linux), link-time interposition reaching every libc call of the library "
             "(canary-checked each run), TLC. Bounded constants in spec/MC_Comm_*.cfg; schedules beyond the exhaustive "
             "tiny cases are seeded samples.")
COMM_TECH = ("TLA+ spec (Comm.tla over CommEnv.tla) model-checked with TLC; real Communicator driven over a simulated "
             "kernel via libc interposition; every recorded execution validated by TLC against CommTrace.tla whose "
             "monitors decide")
PROC_NOTE = ("Trusted: the process-table model of spec/ProcEnv.tla, interposition of waitpid/kill/clock_gettime/"
             "clock_nanosleep (canary-checked), TLC. The child's pid and the clock are virtual: exit instants, external "
             "reaping and pid reuse are scheduled exactly. Bounded constants in spec/MC_Proc_*.cfg.")
PROC_TECH = ("TLA+ spec (Proc.tla over ProcEnv.tla) model-checked with TLC; real Popen driven through API histories with a "
             "virtual child pid and virtual clock via libc interposition; every recorded execution validated by TLC "
             "against ProcTrace.tla whose monitors decide")

CHECKS = {
    "C01": ("comm", "TLC explores every interleaving of the poll loop (Comm.tla) with every bounded child program: no "
            "deadlock, no monitor fires; the real Communicator::read is executed over the simulated kernel along "
            "exhaustive (tiny) and seeded schedules incl. all subsets of piped streams and capacities around the chunk "
            "size, and TLC validates each recorded trace against CommTrace.tla (C01_deadlock on a stuck state the "
            "kernel model confirms, C01_no_spin on no-progress system-call streaks / CPU spin).",
            COMM_NOTE, COMM_TECH, "DESIGN.md §4.2, §7 C01"),
    "C02": ("comm", "As C01 with short reads/writes enabled and self-describing stream units (1 B … 4096 B): TLC checks on "
            "every recorded execution that returned vectors are prefixes/complete copies of what the child wrote per "
            "stream, absent iff not piped, that stdin receives exactly the input once, and that stdin is closed before "
            "the library waits again.", COMM_NOTE, COMM_TECH, "DESIGN.md §4.2, §7 C02"),
    "C03": ("comm", "As C01 over sequences of size limits across successive read() calls: per-call total <= limit, "
            "continuity of per-stream data across calls, all-empty only at kernel-level EOF; limits around the chunk size "
            "at 1-, 2-byte and page units.", COMM_NOTE, COMM_TECH, "DESIGN.md §4.2, §7 C03"),
    "C04": ("comm", "As C01 under a virtual clock: limits 0 … 30 days incl. the i32::MAX ms poll boundary, "
            "silent/trickling/flooding children, children closing stdin on a full pipe; TLC checks TimedOut is truthful "
            "to 1 ms, at most two polls / I/O rounds after expiry, capture continuity across resumed reads.",
            COMM_NOTE, COMM_TECH, "DESIGN.md §4.2, §7 C04"),
    "C09": ("proc", "TLC explores all API histories (bounded) x exit / external-reap / pid-reuse placements on Proc.tla; a "
            "real Popen is driven through seeded histories covering every exit code 0..255 and every fatal signal with a "
            "virtual pid, and TLC validates each trace: reported status = kernel truth, never while running, final once "
            "reported, pid() absent afterwards, no waitpid/kill about the child afterwards, Undetermined (not an error) "
            "when reaped elsewhere.", PROC_NOTE, PROC_TECH, "DESIGN.md §4.4, §7 C09"),
    "C10": ("proc", "As C09 for terminate/kill/send_signal: every kill() issued names the child's pid with exactly the "
            "requested signal, exactly once, only inside a signalling call and only while the handle has not observed "
            "termination; afterwards the calls return Ok and issue nothing (so a recycled pid cannot be hit).",
            PROC_NOTE, PROC_TECH, "DESIGN.md §4.4, §7 C10"),
    "C11": ("proc", "As C09 under a virtual clock: wait_timeout(d) for d from 0 to 30 days with the exit placed before the "
            "call, in the first/middle/last ns of each back-off interval, at the deadline, or never; TLC checks poll "
            "issues only WNOHANG waits and no sleep, 'still running' is neither early nor more than 20 ms late, a status "
            "comes within 120 ms of the exit, a known status costs no system call, consecutive checks are separated by "
            "a sleep and their number is <= 20 + d/10ms (long steady back-off runs are run-length encoded).",
            PROC_NOTE, PROC_TECH, "DESIGN.md §4.4, §7 C11"),
}

ENGINES = [
    {"name": "comm", "path": "/verif/lib/c_comm.py", "serves_properties": ["C01", "C02", "C03", "C04"],
     "kind_free_text": "TLC model checking of spec/Comm.tla + trace validation (spec/CommTrace.tla) of the real "
                       "Communicator run over a simulated kernel (harness/src/csim.rs, comm_replay)"},
    {"name": "proc", "path": "/verif/lib/c_proc.py", "serves_properties": ["C09", "C10", "C11"],
     "kind_free_text": "TLC model checking of spec/Proc.tla + trace validation (spec/ProcTrace.tla) of a real Popen with "
                       "virtual child pid and clock (harness/src/psim.rs, proc_replay)"},
]

NA_REASON = {}
DEFAULT_NA = ("check not built yet (build phase in progress); will be claimed once its TLA+ spec and conformance "
              "harness exist")


def main():
    m = {
        "version": 1,
        "setup_cmd": "./check --setup",
        "hooks": {"guard": "subprocess_verif",
                  "enable": "RUSTFLAGS='--cfg subprocess_verif' (set in /verif/harness/.cargo/config.toml); no hook "
                            "exists: all observation is done at the libc boundary, through the public API and by "
                            "reporting children",
                  "baseline_off_cmd": "cd /repo && cargo test --workspace --no-fail-fast --offline",
                  "source_commits": [], "add_only": True},
        "engines": [e for e in ENGINES if any(p in CHECKS for p in e["serves_properties"])],
        "checks": [],
        "not_applicable": [],
        "notes": "All checks: ./check <ID> [--tier quick|thorough] [--replay PATH]. Exit 0 held / 1 VIOLATION / 2 tool "
                 "error. known_findings.json lists fixed defects (F6, F7, ...) and known findings.",
    }
    for p in props:
        if p in CHECKS:
            eng, text, note, tech, ref = CHECKS[p]
            m["checks"].append({
                "property_id": p, "quick_cmd": "./check %s --tier quick" % p,
                "thorough_cmd": "./check %s --tier thorough" % p,
                "evidence_file": "/verif/evidence/%s.json" % p,
                "replay_cmd_template": "./check %s --replay {path}" % p, "engine": eng,
                "level_claimed": {"category": "model_checking", "text": text, "design_ref": ref},
                "level_note": note, "technique": tech})
        else:
            m["not_applicable"].append({"property_id": p, "reason": NA_REASON.get(p, DEFAULT_NA)})
    json.dump(m, open(os.path.join(ROOT, "MANIFEST.json"), "w"), indent=1)


if __name__ == "__main__":
    main()
