"""TLC-generated behaviours of Comm.tla (spec -> implementation): `tlc -simulate` on MCCommGen prints one JSON line
per finished behaviour; each becomes a comm_replay scenario whose child program is the behaviour's sequence of
committed child operations and whose event script places every environment step before the library system call
that returned after it in the model."""
import json
import os
import re
import subprocess

from .common import SPEC, ToolError, log, workdir

CONFIGS = [
    # (piped, cap, k, inlen, maxout, maxerr, maxchunk, limits, tlims, maxcalls, maxnow, short)
    ('{"in","out","err"}', 2, 1, 3, 3, 2, 2, "L_12", "T_012", 3, 4, "FALSE"),
    ('{"in","out"}', 3, 2, 5, 4, 0, 3, "L_none", "T_none", 1, 0, "TRUE"),
    ('{"out","err"}', 2, 1, 0, 4, 3, 2, "L_123", "T_01", 3, 3, "FALSE"),
    ('{"in"}', 1, 1, 4, 0, 0, 2, "L_none", "T_012", 2, 4, "FALSE"),
    ('{"in","out","err"}', 1, 1, 4, 3, 3, 2, "L_none", "T_none", 1, 0, "FALSE"),
]


def generate(seed, num, depth=160):
    """returns a list of comm_replay scenarios"""
    wd = workdir("commgen")
    out = []
    seen = set()
    for ci, c in enumerate(CONFIGS):
        cfg = os.path.join(SPEC, "MC_gen_%d_%d.cfg" % (os.getpid(), ci))
        with open(cfg, "w") as f:
            f.write("SPECIFICATION GenSpec\nCONSTANTS\n  Piped = %s\n  Cap = %d\n  K = %d\n  WriteSize = %d\n  ReadBuf = %d\n"
                    "  InLen = %d\n  MaxOut = %d\n  MaxErr = %d\n  MaxChunk = %d\n  Limits <- %s\n  TLims <- %s\n  MaxCalls = %d\n"
                    "  MaxNow = %d\n  PollMax = 2\n  ShortIO = %s\n  FixF6 = TRUE\n  FixF7 = TRUE\nINVARIANT Emit\nCONSTRAINT Bound\n"
                    "CHECK_DEADLOCK FALSE\n" % (c[0], c[1], c[2], c[2], c[2], c[3], c[4], c[5], c[6], c[7], c[8], c[9], c[10], c[11]))
        try:
            r = subprocess.run(["tlc", "-workers", "1", "-simulate", "num=%d" % num, "-depth", str(depth), "-seed",
                                str(seed + ci), "-metadir", os.path.join(wd, "md%d" % ci), "-cleanup", "-noGenerateSpecTE",
                                "-config", os.path.basename(cfg), "MCCommGen.tla"], cwd=SPEC, env=dict(os.environ, JAVA_TOOL_OPTIONS="-Djava.io.tmpdir=" + wd), stdout=subprocess.PIPE,
                               stderr=subprocess.STDOUT, text=True, timeout=600)
        finally:
            os.unlink(cfg)
        if "Parsing or semantic analysis failed" in r.stdout or "ConfigFileException" in r.stdout:
            log(r.stdout[-2000:])
            raise ToolError("TLC could not run the behaviour generator")
        for m in re.finditer(r'<<\s*"GEN",\s*"(.*?)"\s*>>', r.stdout, re.S):
            js = json.loads(bytes(" ".join(m.group(1).split()), "utf-8").decode("unicode_escape"))
            key = json.dumps(js, sort_keys=True)
            if key in seen:
                continue
            seen.add(key)
            sc = to_scenario(js, "gen%d-%d" % (ci, len(out)))
            if sc:
                out.append(sc)
    return out


def to_scenario(js, sid):
    k = js["k"]
    unit = 4096 // k
    child, calls, events, expect = [], [], [], []
    opmap = {"poll": "p_poll", "io_in": "p_write", "io_out": "p_read", "io_err": "p_read", "close_in": "p_close",
             "idle": "p_close", "dropping": "p_close"}
    for h in js["hist"]:
        t = h["t"]
        if t == "commit":
            if h["op"] == "rd":
                child.append(["rd", h["n"]])
            elif h["op"] == "wr":
                child.append(["wr", h["s"], h["n"]])
            elif h["op"] == "close":
                child.append(["close", h["s"]])
            elif h["op"] == "exit":
                child.append(["exit"])
            if calls:
                events.append("C")
            else:
                pre = True  # environment steps before the first call cannot be placed: let them run at the first call
                events.append("C")
        elif t == "cstep":
            events.append("C")
        elif t == "tick":
            events.append("T1000000")
        elif t == "call":
            c = {}
            if h["n"] >= 0:
                c["limit"] = h["n"]
            if h.get("tl", -1) >= 0:
                c["tlim"] = h["tl"] * 1_000_000
            calls.append(c)
            events.append("K")
        elif t == "P":
            events.append("P")
            expect.append(opmap.get(h["op"], "?"))
    if not calls:
        return None
    if not child or child[-1] != ["exit"]:
        child.append(["exit"])
    # a later call cannot unset a limit in the real API: the model's "-1 after a limit" keeps the old one there too
    return {"id": sid, "piped": js["piped"], "unit": unit, "cap": js["cap"] * 1, "input": js["inlen"], "child": child,
            "calls": calls, "short": js["short"], "events": events, "expect_sys": expect}
