"""C01-C04, second implementation: the thread-based communicator (cfg(windows) RawCommunicator of
src/communicate.rs).  CommWin.tla (helper threads + rendezvous channel + main loop over CommEnv) is model-checked by
TLC; the code itself is extracted from the current source text, run on Linux pipes with real threads against the
scripted child (commwin_replay) and every recorded exchange is validated by TLC against CommApiTrace.tla."""
import json
import os
import shutil
import subprocess

from . import commwin_scen
from .common import (REPO, ROOT, ToolError, env_offline, log, run_harness, save_replay, tlc_mc, validate_sharded,
                     workdir)

HWIN = os.path.join(ROOT, "harness_win")
BINW = os.path.join(HWIN, "target", "release", "commwin_replay")

MC_CFGS = {
    ("C01", "quick"): ["MC_CommWin_a.cfg"],
    ("C01", "thorough"): ["MC_CommWin_a.cfg", "MC_CommWin_b.cfg", "MC_CommWin_live.cfg"],
    ("C02", "quick"): ["MC_CommWin_a.cfg"],
    ("C02", "thorough"): ["MC_CommWin_a.cfg", "MC_CommWin_b.cfg"],
    ("C03", "quick"): ["MC_CommWin_limtime.cfg"],
    ("C03", "thorough"): ["MC_CommWin_limtime.cfg", "MC_CommWin_lim.cfg"],
    ("C04", "quick"): ["MC_CommWin_limtime.cfg"],
    ("C04", "thorough"): ["MC_CommWin_limtime.cfg", "MC_CommWin_time.cfg", "MC_CommWin_timein.cfg"],
}


def build():
    """returns None when built, else the reason the engine is unavailable"""
    lock = os.path.join(HWIN, "Cargo.lock")
    if not os.path.exists(lock):
        shutil.copy(os.path.join(REPO, "Cargo.lock"), lock)
    r = subprocess.run(["cargo", "build", "--release", "--offline"], cwd=HWIN, env=env_offline(),
                       stdout=subprocess.PIPE, stderr=subprocess.STDOUT, text=True)
    if r.returncode != 0:
        return "the thread-based communicator extracted from src/communicate.rs does not build here: " + r.stdout[-600:]
    return None


def scenarios(pid, tier, seed):
    big = tier == "thorough"
    if pid == "C01":
        return commwin_scen.fam_deadlock(seed, 150 if big else 30) + commwin_scen.fam_data(seed, 5)[:30]
    if pid == "C02":
        return commwin_scen.fam_data(seed, 200 if big else 30) + commwin_scen.fam_deadlock(seed, 10)[::7]
    if pid == "C03":
        return commwin_scen.fam_limit(seed, 200 if big else 25)
    if pid == "C04":
        return commwin_scen.fam_time(seed, 100 if big else 12) + commwin_scen.fam_limit(seed, 3)[::5]
    raise ToolError("no commwin scenarios for " + pid)


def signature(v, sc):
    return "%s/%s-%s" % (v, "unix-real" if sc.get("impl") == "unix" else "win", "".join(c[0] for c in sc["piped"]) or "none")


def run(pid, tier, seed, findings, prefix, replay_scenario=None):
    """returns (mc, new, known_hits, others, info)"""
    mc = []
    why = build()
    if why:
        log("[commwin] engine unavailable: " + why[:300])
        return mc, [], set(), {}, {"unavailable": why[:300]}
    if replay_scenario is None:
        for cfg in MC_CFGS[(pid, tier)]:
            r = tlc_mc("MCCommWin.tla", cfg, "%s_%s" % (pid, cfg[:-4]), workers=8)
            mc.append({k: r[k] for k in ("cfg", "states", "distinct", "ok", "error", "wall_s")})
            log("[mc] %s: %d distinct states, ok=%s (%.1fs)" % (cfg, r["distinct"], r["ok"], r["wall_s"]))
        win = scenarios(pid, tier, seed)
        # the same scenarios for the library's own (poll()-based) communicator: real pipes instead of the simulated
        # kernel of the comm engine (Linux's page-slot pipe buffers, real SIGPIPE/EPIPE, real poll)
        scs = win + [dict(s, id="u" + s["id"], impl="unix", calls=[{k: v for k, v in c.items() if k != "hold_us"} for c in s["calls"]])
                     for s in win]
    else:
        scs = [replay_scenario]
    wd = workdir("commwin_" + pid)
    by_id = {}
    scen_path = os.path.join(wd, "scen.ndjson")
    with open(scen_path, "w") as f:
        for s in scs:
            by_id[s["id"]] = s
            f.write(json.dumps(s) + "\n")
    trace_path = os.path.join(wd, "trace.ndjson")
    r = run_harness([BINW, scen_path, trace_path], 1800)
    if r.returncode != 0:
        log(r.stderr[-2000:])
        raise ToolError("commwin_replay failed with status %d" % r.returncode)
    note = r.stderr.strip().splitlines()[-1] if r.stderr.strip() else ""
    log("[replay] " + note)
    results, tv_states, blocks = validate_sharded("CommApiTrace.tla", "CommApiTrace.cfg", trace_path, "commwin_" + pid)
    blk = {json.loads(b[0])["id"]: b for b in blocks}
    if len(results) != len(blk):
        raise ToolError("validated %d exchanges but recorded %d" % (len(results), len(blk)))
    new, known_hits, others, seen = [], set(), {}, set()
    nontrivial = set()
    for res in results:
        if res["sanity"]:
            raise ToolError("commwin: %s in %s (watchdog without evidence / harness trouble)" % (res["sanity"], res["id"]))
        sc = by_id[res["id"]]
        b = blk[res["id"]]
        if sum(1 for ln in b if '"e":"ret"' in ln) > 1 or any('"nout":0,' not in ln for ln in b if '"e":"ret"' in ln):
            nontrivial.add(res["id"])
        for v in res["viol"]:
            if not v.startswith(prefix):
                others[v] = others.get(v, 0) + 1
                continue
            sig = signature(v, sc)
            hit = [f for f in findings if f["signature"] == sig]
            if hit:
                known_hits.add(hit[0]["what"])
                continue
            if sig in seen:
                continue
            seen.add(sig)
            path = save_replay(pid, {"property": pid, "monitor": v, "signature": sig, "engine": "commwin",
                                     "scenario": sc, "trace": [json.loads(x) for x in b][:300]})
            which = "poll()-based communicator on real pipes" if sc.get("impl") == "unix" else "thread-based communicator"
            new.append(("%s fired in exchange %s of the %s (%s)" % (v, res["id"], which, sig), path))
    info = {"exchanges": len(results),
            "of_the_thread_based_communicator": sum(1 for x in scs if x.get("impl") != "unix"),
            "of_the_poll_based_communicator_on_real_pipes": sum(1 for x in scs if x.get("impl") == "unix"),
            "rule": "one exchange = one scenario (scripted child, sequence of read() calls) run on the real kernel and "
                    "validated by TLC against CommApiTrace.tla; real time, slack 700 ms / 600 ms",
            "nontrivial": len(nontrivial), "trace_validation_states": tv_states,
            "replay_note": note,
            "sample": [json.loads(x) for x in blocks[0][:8]] if blocks else []}
    return mc, new, known_hits, others, info
