"""TLC-generated behaviours of Launch.tla (spec -> implementation): model checking MC_Launch_gen.cfg prints, for every
failure plan (which step fails, with which errno; `detached` asked or not), what Popen::create must return and what
becomes of the child.  Every plan becomes one or more fault scenarios of spawn_replay (the model's "prepare" step is
each of the descriptor allocations / fcntl calls before the fork); compare() checks the real outcome against the
model's prediction."""
import json
import os
import re
import subprocess

from . import spawn_scen
from .common import SPEC, ToolError, log, workdir

POINTS = {
    "prepare": [("pipe", 1, 0), ("fcntl", 1, 0), ("fcntl", 2, 0), ("pipe", 2, 0), ("pipe", 3, 0)],
    "fork": [("fork", 1, 0)], "read": [("read", 1, 0)], "chdir": [("chdir", 1, 1)], "dup2": [("dup2", 1, 1), ("dup2", 2, 1)],
    "setgid": [("setgid", 1, 1)], "setuid": [("setuid", 1, 1)], "setpgid": [("setpgid", 1, 1)],
    "sigreset": [("signal", 1, 1)], "exec": [("execve", 1, 1)], "none": [None],
}


def generate():
    wd = workdir("launchgen")
    r = subprocess.run(["tlc", "-workers", "1", "-metadir", os.path.join(wd, "md"), "-cleanup", "-noGenerateSpecTE",
                        "-config", "MC_Launch_gen.cfg", "Launch.tla"], cwd=SPEC,
                       env=dict(os.environ, JAVA_TOOL_OPTIONS="-Djava.io.tmpdir=" + wd),
                       stdout=subprocess.PIPE, stderr=subprocess.STDOUT, text=True, timeout=600)
    if "No error has been found" not in r.stdout:
        log(r.stdout[-2000:])
        raise ToolError("TLC could not run the behaviour generator (Launch)")
    plans = {}
    for m in re.finditer(r'<<"LAUNCH", "(\w+)", (\d+), (TRUE|FALSE), "(\w+)", (\d+), (TRUE|FALSE), "(\w+)">>', r.stdout):
        step, errno, det, kind, e, started, proc = m.groups()
        key = (step, int(errno), det == "TRUE")
        p = plans.setdefault(key, {"kind": kind, "errno": int(e), "started": started == "TRUE", "fates": set()})
        if (p["kind"], p["errno"], p["started"]) != (kind, int(e), started == "TRUE"):
            raise ToolError("Launch.tla predicts two different results for plan %r" % (key,))
        p["fates"].add(proc)
    out = []
    for (step, errno, det), p in sorted(plans.items()):
        for k, pt in enumerate(POINTS[step]):
            sc = {"id": "lgen-%s%d-e%d%s" % (step, k, errno, "-det" if det else ""), "class": "fault-generated",
                  "argv": spawn_scen.vargv(), "stdin": "pipe", "stdout": "pipe", "stderr": "none", "detached": det,
                  "cwd": spawn_scen.hx(spawn_scen.SP), "setuid": 0, "setgid": 0, "setpgid": True,
                  "model": {"step": step, "kind": p["kind"], "errno": p["errno"], "started": p["started"],
                            "fates": sorted(p["fates"])}}
            if pt is not None:
                sc["fault"] = {"kind": pt[0], "nth": pt[1], "side": pt[2], "errno": errno}
            if det and pt is not None and pt[2] == 1:
                sc["class"] = "fault-generated-child-detached"
            out.append(sc)
    return out


def compare(sc, block):
    """block = the recorded events of this launch; returns None when the real outcome is the model's, else a description"""
    evs = [json.loads(x) for x in block]
    res = [e for e in evs if e.get("e") == "result"]
    if not res:
        return "no result recorded"
    res = res[0]
    m = sc["model"]
    started = any(e.get("e") in ("report", "stray_report") for e in evs)
    post = [e for e in evs if e.get("e") == "post"]
    got = ("ok" if res["ok"] else "err", 0 if res["ok"] else res["errno"], started, post[0]["children"] if post else "?")
    want = (m["kind"], m["errno"], m["started"], "none")
    return None if got == want else "model %r, code %r" % (want, got)
