"""C12, C13, C14 (and the pipeline part of C08): builder-level scenarios on the real kernel (api_replay), validated
by TLC against ApiTrace.tla; Pipeline.tla / Drop.tla (L2) are model-checked for the ordering arguments."""
import json
import os
import subprocess
import time

from . import api_scen
from .common import (run_harness, BIN, ToolError, build_harness, finish, load_findings, log, save_replay, tlc_mc,
                     validate_sharded, workdir, write_evidence, WORK, SPEC)

PREFIX = {p: p + "_" for p in ("C05", "C06", "C07", "C08", "C12", "C13", "C14", "C15", "C16", "C17", "C18")}


def scenarios(pid, tier, seed):
    big = tier == "thorough"
    if pid == "C13":
        base = api_scen.fam_pipelines(seed, big)
        # the same with standard descriptors of the parent closed: the files given for the pipeline's input, output and
        # error sink (and the connecting pipes) land on the numbers 0-2
        pick = [x for x in base if x["term"] in ("join", "popen", "capture") and x["stdin"] in ("file", "null", "data")
                and x["stdout"] in ("file", "pipe", "null") and x["stderr"] in ("file", "capture")][:(24 if big else 12)]
        closed = [dict(x, id=x["id"] + "-closed", closed_std=c) for x, c in zip(pick, [[0], [1], [1, 2], [0, 1, 2]] * 6)]
        return base + closed
    if pid == "C14":
        return api_scen.fam_pipeline_fail(seed, big)
    if pid == "C12":
        return (api_scen.fam_handles(seed, big) + api_scen.fam_pipelines(seed, False)[::6]
                + api_scen.fam_pipeline_fail(seed, False)[::(3 if big else 9)]
                + [x for x in api_scen.fam_pipeline_fail(seed, False) if x.get("noisy") or "own_stderr" in x])
    if pid == "C08":
        return api_scen.fam_pipelines(seed, False)[::2]
    raise ToolError("no api scenarios for " + pid)


def run_api(pid, tier, seed, scs, tag):
    wd = workdir("api_" + tag)
    scen_path = os.path.join(wd, "scen.ndjson")
    with open(scen_path, "w") as f:
        for s in scs:
            f.write(json.dumps(s) + "\n")
    trace_path = os.path.join(wd, "trace.ndjson")
    r = run_harness([os.path.join(BIN, "api_replay"), scen_path, trace_path], 2400)
    if r.returncode != 0:
        log(r.stderr[-3000:])
        raise ToolError("api_replay failed with status %d" % r.returncode)
    try:
        note = open(trace_path + ".summary").read().strip()
    except OSError:
        raise ToolError("api_replay wrote no summary")
    if note.endswith("seen: 0"):
        raise ToolError("interposition is silent")
    log("[replay] " + note)
    results, tv_states, blocks = validate_sharded("ApiTrace.tla", "ApiTrace.cfg", trace_path, "api_" + tag)
    return results, tv_states, blocks, note


def classify(pid, scs, results, blocks, prefix, engine):
    by_id = {s["id"]: s for s in scs}
    blk = {json.loads(b[0])["id"]: b for b in blocks}
    findings = [f for f in load_findings() if f["property"] == pid and f["status"] == "known"]
    new, known_hits, others, seen = [], set(), {}, set()
    order = {s["id"]: i for i, s in enumerate(scs)}
    results.sort(key=lambda r: order.get(r["id"], 1 << 30))
    for r in results:
        if r["sanity"]:
            if new:
                break
            raise ToolError("environment check failed in %s: %s" % (r["id"], r["sanity"]))
        sc = by_id[r["id"]]
        for v in r["viol"]:
            if not v.startswith(prefix):
                others[v] = others.get(v, 0) + 1
                continue
            sig = "%s/%s" % (v, sc.get("class", "?"))
            hit = [f for f in findings if f["signature"] == sig]
            if hit:
                known_hits.add(hit[0]["what"])
                continue
            if sig in seen:
                continue
            seen.add(sig)
            path = save_replay(pid, {"property": pid, "monitor": v, "signature": sig, "engine": engine,
                                     "scenario": sc, "trace": [json.loads(x) for x in blk[r["id"]]][:400]})
            new.append(("%s fired in scenario %s (%s)" % (v, r["id"], sig), path))
    return new, sorted(known_hits), others, blk, by_id


def run(pid, tier, seed, replay=None):
    t0 = time.time()
    build_harness()
    mc = []
    if replay is None:
        scs = scenarios(pid, tier, seed)
        for cfg in {"C12": ["MC_Drop.cfg"], "C14": ["MC_Drop.cfg"], "C13": ["MC_Pipeline.cfg"], "C08": []}[pid]:
            if os.path.exists(os.path.join(SPEC, cfg)):
                mod = "Drop.tla" if "Drop" in cfg else "MCPipeline.tla"
                r = tlc_mc(mod, cfg, "%s_%s" % (pid, cfg[:-4]), workers=8)
                mc.append({k: r[k] for k in ("cfg", "states", "distinct", "ok", "error", "wall_s")})
                log("[mc] %s: %d distinct states, ok=%s (%.1fs)" % (cfg, r["distinct"], r["ok"], r["wall_s"]))
    else:
        scs = [json.load(open(replay))["scenario"]]
    results, tv_states, blocks, note = run_api(pid, tier, seed, scs, pid)
    new, known_hits, others, blk, by_id = classify(pid, scs, results, blocks, PREFIX[pid], "api")
    popen_part = {}
    if pid == "C12" and replay is None:
        # the Popen handle itself (virtual child pid, every point of the child's life, signals sent before the drop,
        # detached or not): ProcEnv's C12 monitors on recorded executions, plus the algorithm model Proc.tla
        from . import c_proc
        pmc, pby, pres, pstates, pblocks, pnote = c_proc.run_traces("C12", tier, seed)
        mc += pmc
        pblk = {json.loads(b[0])["id"]: b for b in pblocks}
        pseen = set()
        for r in pres:
            for v in r["viol"]:
                if v.startswith("C12_") and v not in pseen:
                    pseen.add(v)
                    path = save_replay(pid, {"property": pid, "monitor": v, "signature": v + "/popen", "engine": "proc",
                                             "scenario": pby[r["id"]], "trace": [json.loads(x) for x in pblk[r["id"]]][:300]})
                    new.append(("%s fired in history %s of a Popen" % (v, r["id"]), path))
        tv_states += pstates
        popen_part = {"histories_of_a_popen_with_virtual_child": len(pres), "note": pnote}
        # a launch that fails after the fork has started a child too: it must be reaped before create() returns
        from . import c_spawn, spawn_scen
        os.makedirs(spawn_scen.SP, exist_ok=True)
        os.chmod(spawn_scen.SP, 0o777)
        fscs = [x for x in spawn_scen.fam_faults(seed, False) if (x.get("fault") or {}).get("side") == 1][::2]
        fscs += spawn_scen.fam_alloc(seed, False)[1::2][:6]
        fres, fstates, fblk, fnote = c_spawn.run_raw(fscs, "C12fail")
        fby = {x["id"]: x for x in fscs}
        for r in fres:
            for v in r["viol"]:
                if v.startswith("C12_") and v not in pseen:
                    pseen.add(v)
                    path = save_replay(pid, {"property": pid, "monitor": v, "signature": v + "/failed-launch", "engine": "spawn",
                                             "scenario": fby[r["id"]], "trace": [json.loads(x) for x in fblk[r["id"]]][:300]})
                    new.append(("%s fired in launch %s" % (v, r["id"]), path))
        tv_states += fstates
        popen_part["failed_launches"] = len(fres)
    nontrivial = set(r["id"] for r in results if any('"n":"fork"' in ln for ln in blk[r["id"]]))
    samples = [{"scenario": by_id[i], "events": [json.loads(x) for x in blk[i] if '"e":"sys"' not in x][:6]}
               for i in list(blk)[:2]]
    cov = {
        "states": max(1, sum(m["distinct"] for m in mc) + tv_states),
        "transitions": max(1, sum(m["states"] for m in mc) + tv_states),
        "traces_validated_against_impl": len(results),
        "samples": samples,
        "evaluations": len(results),
        "distinct_nontrivial": len(nontrivial),
        "rule": "one evaluation = one builder-level scenario (pipeline / handle) executed with the real library on the "
                "real kernel with reporting stage programs, validated by TLC against ApiTrace.tla; non-trivial = at "
                "least one process was forked",
        "exhaustive": False,
        "model_checking": mc,
        "trace_validation_states": tv_states,
        "monitors_of_other_properties_fired": others,
        "replay_note": note,
        "popen_handle": popen_part,
        "scenarios_not_run_after_repeated_hangs": len(scs) - len(results),
    }
    assumptions = [
        "a hang is judged only on wait-for evidence collected by the watchdog (the library waits for a child that is "
        "blocked on a pipe whose other end only the library's process holds, or a child keeps an end of a library pipe "
        "open above fd 2); a watchdog expiry without such evidence is a tool error",
        "stage programs are the harness's reporting child (vchild); pipes are identified by inode and direction",
        "link-time interposition reaches the library's libc calls in the parent and in forked children",
    ]
    write_evidence(pid, tier, seed, cov, assumptions, time.time() - t0, len(new))
    return finish(pid, new, known_hits)
