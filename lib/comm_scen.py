"""Scenario families for the communicate checks (C01-C04).

A scenario is one exchange configuration for comm_replay: which streams are piped, the unit size
(bytes per unit; 4096/unit = chunk size in units), pipe capacity, input length, the scripted child's
program, the sequence of read() calls with their limits, and how the scheduler is driven
(`runs` random schedules, `dfs` = systematic enumeration of every scheduler decision)."""
import random

SUBSETS = [["in"], ["out"], ["err"], ["in", "out"], ["in", "err"], ["out", "err"], ["in", "out", "err"]]


def rand_child(rng, piped, k, input_units, max_out, max_err, sleeps=False, early=False):
    """random child program: partial reads, writes of 1..k+2 units (also > PIPE_BUF), closes, exit"""
    ops = []
    left = {"out": max_out if "out" in piped else 0, "err": max_err if "err" in piped else 0}
    to_read = input_units if "in" in piped else 0
    closed = set()
    guard = 0
    while (left["out"] > 0 or left["err"] > 0 or to_read > 0) and guard < 40:
        guard += 1
        choices = []
        if to_read > 0 and "in" not in closed:
            choices += ["rd"] * 3
        for s in ("out", "err"):
            if left[s] > 0 and s not in closed:
                choices += [s] * 2
        if sleeps:
            choices.append("sleep")
        if early and rng.random() < 0.08:
            choices.append("close")
        if not choices:
            break
        c = rng.choice(choices)
        if c == "rd":
            n = rng.randint(1, k + 1)
            ops.append(["rd", n])
            to_read -= min(n, to_read)
        elif c in ("out", "err"):
            n = min(left[c], rng.choice([1, 1, k, k, k + 1, 2 * k + 1]))
            ops.append(["wr", c, n])
            left[c] -= n
        elif c == "sleep":
            ops.append(["sleep", rng.choice([200_000, 1_000_000, 3_000_000, 20_000_000])])
        elif c == "close":
            cand = [s for s in piped if s not in closed]
            if cand:
                s = rng.choice(cand)
                ops.append(["close", s])
                closed.add(s)
    if "in" in piped and "in" not in closed and rng.random() < 0.8:
        # wait for end-of-file on stdin like a filter does
        ops.append(["rd", k + 1])
        if rng.random() < 0.5:
            ops.append(["rd", 1])
    if rng.random() < 0.3:
        for s in piped:
            if s not in closed and rng.random() < 0.5:
                ops.append(["close", s])
    ops.append(["exit"])
    return ops


def base(sc_id, piped, unit, cap, inp, child, calls, **kw):
    d = {"id": sc_id, "piped": piped, "unit": unit, "cap": cap, "input": inp if "in" in piped else 0,
         "child": child, "calls": calls}
    d.update(kw)
    return d


def fam_deadlock(seed, n_random, runs, dfs_budget):
    """C01: every subset of piped streams, capacities around the chunk size, inputs far above capacity,
    children that produce before they consume and vice versa."""
    rng = random.Random(seed * 7919 + 1)
    out = []
    i = 0
    # hand-written classics
    for piped in SUBSETS:
        for (unit, cap) in ((4096, 1), (2048, 2), (2048, 3), (1024, 4), (1024, 5)):
            k = 4096 // unit
            big = cap + 2 * k + 1
            progs = []
            if "in" in piped and ("out" in piped or "err" in piped):
                o = "out" if "out" in piped else "err"
                # writes a lot before reading anything (the classic communicate deadlock)
                progs.append(("wfirst", big, [["wr", o, big], ["rd", big], ["rd", 1], ["exit"]]))
                # cat-like: read a chunk, write a chunk
                cat = []
                for _ in range(big):
                    cat += [["rd", 1], ["wr", o, 1]]
                progs.append(("cat", big, cat + [["rd", 1], ["exit"]]))
                # reads everything, then answers
                progs.append(("rall", big, [["rd", big]] * 3 + [["wr", o, big], ["exit"]]))
                # never reads, exits early
                progs.append(("noread", big, [["wr", o, 1], ["exit"]]))
                # closes stdin early but keeps writing
                progs.append(("cin", big, [["rd", 1], ["close", "in"], ["wr", o, big], ["exit"]]))
            elif "in" in piped:
                progs.append(("sink", big, [["rd", 1]] * (big + 1) + [["exit"]]))
                progs.append(("sinkbig", big, [["rd", big], ["rd", big], ["rd", 1], ["exit"]]))
                progs.append(("noread", big, [["exit"]]))
                progs.append(("empty", 0, [["rd", 1], ["exit"]]))
            else:
                o = [s for s in piped]
                p = []
                for s in o:
                    p += [["wr", s, big]]
                progs.append(("src", 0, p + [["exit"]]))
                if len(o) == 2:
                    progs.append(("src2", 0, [["wr", o[1], big], ["wr", o[0], big], ["close", o[0]],
                                              ["wr", o[1], 1], ["exit"]]))
                progs.append(("closeonly", 0, [["close", o[0]], ["exit"]]))
            for (nm, inp, prog) in progs:
                out.append(base("dl-%s-%s-u%d-c%d" % ("".join(x[0] for x in piped), nm, unit, cap),
                                piped, unit, cap, inp, prog, [{}], runs=runs))
    # random programs
    for j in range(n_random):
        piped = rng.choice(SUBSETS)
        unit = rng.choice([4096, 2048, 1024])
        k = 4096 // unit
        cap = rng.choice([k, k, k + 1, 2 * k, 2 * k + 1])
        inp = rng.choice([0, 1, k, cap, cap + 1, cap + k + 1, 2 * cap + 2 * k])
        child = rand_child(rng, piped, k, inp, rng.randint(0, 2 * cap + 2), rng.randint(0, cap + 2), early=True)
        out.append(base("dl-rnd%d" % j, piped, unit, cap, inp, child, [{}], runs=runs))
    # tiny exchanges explored exhaustively (every scheduler decision)
    if dfs_budget:
        tiny = [
            (["in", "out"], 2, [["wr", "out", 2], ["rd", 2], ["rd", 1], ["exit"]]),
            (["in", "out"], 2, [["rd", 1], ["wr", "out", 1], ["rd", 1], ["wr", "out", 1], ["rd", 1], ["exit"]]),
            (["in", "out", "err"], 2, [["wr", "err", 2], ["wr", "out", 1], ["rd", 2], ["exit"]]),
            (["out", "err"], 0, [["wr", "err", 2], ["wr", "out", 2], ["exit"]]),
            (["in"], 3, [["rd", 1], ["close", "in"], ["exit"]]),
        ]
        for t, (piped, inp, prog) in enumerate(tiny):
            out.append(base("dl-dfs%d" % t, piped, 4096, 1, inp, prog, [{}], dfs=dfs_budget))
    return out


def fam_data(seed, n_random, runs):
    """C02: byte-exactness under short reads/writes, all unit sizes incl. 1- and 2-byte units."""
    rng = random.Random(seed * 104729 + 2)
    out = []
    for j in range(n_random):
        piped = rng.choice(SUBSETS)
        unit = rng.choice([4096, 2048, 1024, 1024, 2, 1])
        k = 4096 // unit
        if unit <= 2:
            cap = k * rng.choice([1, 2])
            inp = rng.choice([0, 1, 7, 40, 77]) if unit == 1 else rng.choice([0, 1, 2047, 2048, 2049, 5000])
            mo = rng.choice([0, 1, 30, 79]) if unit == 1 else rng.choice([0, 1, 2048, 4100, 6000])
            me = rng.choice([0, 3, 60]) if unit == 1 else rng.choice([0, 5, 2049])
            kk = 13 if unit == 1 else 1500
            child = rand_child(rng, piped, kk, inp, mo, me)
        else:
            cap = rng.choice([k, k + 1, 2 * k, 3 * k])
            inp = rng.choice([0, 1, k, cap + 1, 2 * cap + k])
            child = rand_child(rng, piped, k, inp, rng.randint(0, 2 * cap + 3), rng.randint(0, cap + 3), early=True)
        out.append(base("data-rnd%d" % j, piped, unit, cap, inp, child, [{}], runs=runs,
                        short=(rng.random() < 0.6)))
    return out


def fam_limit(seed, n_random, runs):
    """C03: sequences of size limits across successive reads."""
    rng = random.Random(seed * 1299709 + 3)
    out = []
    for j in range(n_random):
        piped = rng.choice([["out"], ["err"], ["out", "err"], ["in", "out"], ["in", "out", "err"], ["in", "err"]])
        unit = rng.choice([4096, 2048, 1024, 2, 1])
        k = 4096 // unit
        if unit <= 2:
            cap = k
            tot = rng.choice([10, 60]) if unit == 1 else rng.choice([100, 4096, 5000])
            lims = [1, 2, 3, 5, tot - 1, tot, tot + 1] if unit == 1 else [1, 2047, 2048, 2049, 4095, tot + 5]
            inp = rng.choice([0, 5, 30]) if unit == 1 else rng.choice([0, 100, 3000])
            kk = 9 if unit == 1 else 1200
            child = rand_child(rng, piped, kk, inp, tot, tot // 2)
        else:
            cap = rng.choice([k, 2 * k, 2 * k + 1])
            tot = rng.randint(1, 3 * cap + 2)
            lims = [1, max(1, k - 1), k, k + 1, 2 * k, tot, tot + 3]
            inp = rng.choice([0, 1, cap + k + 1])
            child = rand_child(rng, piped, k, inp, tot, rng.randint(0, cap + 2))
        ncalls = rng.randint(2, 6)
        calls = []
        for c in range(ncalls):
            if rng.random() < 0.75 or c == 0:
                calls.append({"limit": rng.choice(lims)})
            else:
                calls.append({})
        # finish with reads that drain to EOF
        calls += [{"limit": max(lims)}] * 3
        out.append(base("lim-rnd%d" % j, piped, unit, cap, inp, child, calls, runs=runs,
                        short=(rng.random() < 0.3)))
    # limits that are "as good as none": far beyond the output, up to the largest count the type holds
    for j, lim in enumerate([2 ** 31, 2 ** 40, 2 ** 63 - 1, 2 ** 63, 2 ** 64 - 1]):
        for unit in (1, 4096):
            piped = ["out", "err"] if j % 2 else ["in", "out"]
            child = [["wr", "out", 2], ["rd", 2], ["wr", "out", 1], ["exit"]] if "in" in piped else \
                    [["wr", "out", 2], ["wr", "err", 1], ["exit"]]
            out.append(base("lim-huge%d-u%d" % (j, unit), piped, unit, 4 if unit == 4096 else 4096, 2, child,
                            [{"limit": 3}, {"limit": lim}, {"limit": lim}], runs=1))
    # memory is short: the k-th growth of a result buffer is refused.  The process may abort (what Rust does); if the
    # call returns instead, what was read from the pipes must not be lost -- it comes with the error or with later reads
    for j, kth in enumerate([1, 2, 3, 4]):
        for piped, child in ((["out"], [["wr", "out", 3], ["wr", "out", 5], ["exit"]]),
                             (["out", "err"], [["wr", "out", 4], ["wr", "err", 4], ["wr", "out", 3], ["exit"]])):
            sc = base("lim-oom%d-%s" % (j, "".join(x[0] for x in piped)), piped, 4096, 16, 0, child,
                      [{"limit": 200}, {"limit": 200}, {"limit": 200}, {"limit": 200}], runs=1)
            sc["alloc_fail"] = kth
            out.append(sc)
    # an echoing child and far more input than the pipes hold: every size-limited read is cut short while input is still
    # being delivered, which must go on -- exactly once -- in the later reads
    for j, (unit, cap, lim) in enumerate([(4096, 2, 1), (4096, 3, 2), (2048, 4, 3), (1024, 8, 5)]):
        k = 4096 // unit
        n = 6 * cap
        child = []
        for _ in range(n):
            child += [["rd", 1], ["wr", "out", 1]]
        child += [["rd", 1], ["exit"]]
        out.append(base("lim-echo%d" % j, ["in", "out"], unit, cap, n, child, [{"limit": lim}] * (n + 4), runs=runs * 2))
    return out


def fam_time(seed, n_random, runs):
    """C04: time limits from 0 to beyond the OS poll limit, silent / trickling / flooding children,
    children that close stdin early, sequences of timed-out and resumed reads."""
    rng = random.Random(seed * 15485863 + 4)
    MS = 1_000_000
    tl_menu = [0, 1, 999_999, MS, 2 * MS, 7 * MS + 500_000, 2_000 * MS, (2**31 - 2) * MS, (2**31 - 1) * MS,
               (2**31) * MS, (2**31 + 5) * MS, 30 * 86_400_000 * MS,
               # beyond 2^32 ms (49.7 days): any narrowing of the millisecond count shows
               (2**32) * MS, (2**32 + 1) * MS, (2**32 + 300) * MS, 2 * (2**32) * MS + 7 * MS, 99 * 86_400_000 * MS,
               1000 * 86_400_000 * MS]
    out = []
    # flood: the child refills faster than the parent drains; the limit must still be honoured
    for t, tl in enumerate([0, MS, 3 * MS, 50 * MS]):
        for piped in (["out"], ["out", "err"], ["in", "out"]):
            s = "out"
            out.append(base("time-flood%d-%s" % (t, "".join(x[0] for x in piped)), piped, 4096, 2, 1,
                            [["flood", s]], [{"tlim": tl}, {}], runs=runs))
    # child closes stdin while the stdin pipe is full (only POLLERR is reported)
    for tl in (None, 5 * MS):
        calls = [{}] if tl is None else [{"tlim": tl}]
        out.append(base("time-cin-%s" % ("none" if tl is None else "5ms"), ["in", "out"], 4096, 1, 3,
                        [["sleep", 1 * MS], ["close", "in"], ["sleep", 2 * MS], ["wr", "out", 1], ["exit"]],
                        calls + [{}], runs=runs * 2))
        out.append(base("time-cin2-%s" % ("none" if tl is None else "5ms"), ["in"], 4096, 1, 3,
                        [["close", "in"], ["sleep", 2 * MS], ["exit"]], calls + [{}], runs=runs * 2))
    # a child that answers after a while, under every limit of the menu (incl. the huge ones): the read must not
    # report a timeout before the child's answer
    for t, tl in enumerate(tl_menu[7:]):
        for piped in (["out"], ["in", "out", "err"]):
            out.append(base("time-huge%d-%s" % (t, "".join(x[0] for x in piped)), piped, 4096, 2, 2,
                            [["sleep", 5_000 * MS], ["rd", 2], ["wr", "out", 1], ["sleep", 70_000 * MS], ["wr", "out", 2],
                             ["rd", 1], ["exit"]], [{"tlim": tl}, {}], runs=max(1, runs // 2)))
    for j in range(n_random):
        piped = rng.choice(SUBSETS)
        unit = rng.choice([4096, 2048, 1024])
        k = 4096 // unit
        cap = rng.choice([k, 2 * k, 2 * k + 1])
        inp = rng.choice([0, 1, cap + k + 1])
        child = rand_child(rng, piped, k, inp, rng.randint(0, 2 * cap + 2), rng.randint(0, cap + 1),
                           sleeps=True, early=True)
        if rng.random() < 0.3:
            child = [["sleep", rng.choice(tl_menu[:7]) + rng.choice([0, 1, MS])]] + child
        ncalls = rng.randint(1, 4)
        calls = [{"tlim": rng.choice(tl_menu)}]
        for c in range(ncalls):
            r = rng.random()
            if r < 0.5:
                calls.append({"tlim": rng.choice(tl_menu)})
            elif r < 0.7:
                calls.append({"tlim": rng.choice(tl_menu), "limit": rng.choice([1, k, 2 * k + 1])})
            else:
                calls.append({})
        calls += [{"tlim": 1000 * 86_400_000 * MS}] * 2
        out.append(base("time-rnd%d" % j, piped, unit, cap, inp, child, calls, runs=runs))
    return out


def fam_text(seed, n_random, runs):
    """C02: the text-returning variant (read_string) equals the lossy UTF-8 decoding of the bytes: ASCII, multi-byte
    sequences split across child writes and across reads, invalid and truncated sequences, NUL bytes"""
    rng = random.Random(seed * 32452843 + 5)
    pieces = [b"plain ascii", "žluťoučký kůň".encode(), "日本語テキスト".encode(), "\U0001F600\U0001F680".encode(), b"\xff\xfe\xfd",
              b"\xc3", b"\xe6\x97", b"\xf0\x9f\x98", b"\x00\x00", b"a\x80b", b"\xed\xa0\x80", b"\xc0\xaf", b"tail\xe2\x82"]
    out = []
    for j in range(n_random):
        content = {}
        lens = {}
        for s_ in ("out", "err"):
            b = b"".join(rng.choice(pieces) for _ in range(rng.randint(0, 6)))[:200]
            content[s_] = b.hex()
            lens[s_] = len(b)
        piped = rng.choice([["out"], ["out", "err"], ["in", "out", "err"], ["err"]])
        child = []
        left = {k: lens[k] for k in ("out", "err") if k in piped}
        while any(v > 0 for v in left.values()):
            k = rng.choice([x for x in left if left[x] > 0])
            n = min(left[k], rng.choice([1, 1, 2, 3, 5, 17]))
            child.append(["wr", k, n])
            left[k] -= n
        if "in" in piped:
            child.insert(rng.randint(0, len(child)), ["rd", 50])
            child.append(["rd", 50])
        child.append(["exit"])
        calls = [{}]
        if rng.random() < 0.5:
            # limits cut multi-byte sequences in the middle: every piece is decoded on its own
            calls = [{"limit": rng.choice([1, 2, 3, 5, 7])} for _ in range(rng.randint(1, 5))] + [{"limit": 1000}] * 3
        out.append(base("text-rnd%d" % j, piped, 1, 4096, rng.choice([0, 5, 30]), child, calls, runs=runs,
                        text=True, content=content, short=(rng.random() < 0.5)))
    return out


def fam_eintr(seed, n_random, runs):
    """C02/C04: read(), write() and poll() of the library fail with EINTR at arbitrary points (a signal handler
    without SA_RESTART); the error's capture and every later read stay exact"""
    rng = random.Random(seed * 49979687 + 6)
    out = []
    for j in range(n_random):
        piped = rng.choice(SUBSETS)
        unit = rng.choice([4096, 2048, 1024, 2])
        k = 4096 // unit
        if unit == 2:
            cap = k
            inp, mo, me, kk = rng.choice([0, 100, 3000]), rng.choice([0, 2048, 5000]), rng.choice([0, 2049]), 1500
        else:
            cap = rng.choice([k, 2 * k, 2 * k + 1])
            inp, mo, me, kk = rng.choice([0, 1, cap + k + 1]), rng.randint(0, 2 * cap + 3), rng.randint(0, cap + 2), k
        child = rand_child(rng, piped, kk, inp, mo, me)
        calls = [{}] * 8
        if rng.random() < 0.5:
            calls = [{"limit": rng.choice([1, k, 2 * k + 1])}] + [{}] * 10
        out.append(base("eintr-rnd%d" % j, piped, unit, cap, inp, child, calls, runs=runs, eintr=True))
    # a time limit and a child that stays silent: signals interrupt the wait itself, at its start or part-way; the
    # interrupted read() is resumed (each read() has its own limit) and none of them may wait beyond its deadline
    j = 0
    MS = 1_000_000
    for tl in (3 * MS, 50 * MS, 2000 * MS):
        for piped in (["out"], ["out", "err"], ["in", "out"]):
            child = [["sleep", 7 * tl], ["wr", "out", 1], ["sleep", 2 * tl], ["exit"]]
            out.append(base("eintr-tl%d" % j, piped, 4096, 2, 1, child, [{"tlim": tl}] * 14, runs=runs * 3, eintr=True))
            j += 1
    return out
