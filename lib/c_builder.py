"""C16: Builder.tla (plain model L1 vs the code's representation L2) is model-checked by TLC over all call
sequences up to a bound; the real Exec builder is driven through exhaustive short and seeded long call sequences
(api_replay, kind builder) and TLC evaluates L1 on each recorded sequence and compares with what the builder
refused and what the started program reported (BuilderTrace.tla)."""
import json
import os
import subprocess
import time

from . import api_scen
from .common import (run_harness, BIN, ToolError, build_harness, finish, load_findings, log, save_replay, tlc_mc,
                     validate_sharded, workdir, write_evidence, WORK)


def run_sequences(scs, tag):
    """execute builder call sequences on the real Exec and validate them against BuilderTrace.tla"""
    wd = workdir("builder_" + tag)
    spath = os.path.join(wd, "scen.ndjson")
    with open(spath, "w") as f:
        for s in scs:
            f.write(json.dumps(s) + "\n")
    tpath = os.path.join(wd, "trace.ndjson")
    r = run_harness([os.path.join(BIN, "api_replay"), spath, tpath], 2400)
    if r.returncode != 0:
        log(r.stderr[-3000:])
        raise ToolError("api_replay failed with status %d" % r.returncode)
    slim = os.path.join(wd, "trace_slim.ndjson")
    with open(tpath) as fi, open(slim, "w") as fo:
        for ln in fi:
            if '"e":"sys"' not in ln:
                fo.write(ln)
    results, tv_states, _ = validate_sharded("BuilderTrace.tla", "BuilderTrace.cfg", slim, "builder_" + tag)
    if len(results) != len(scs):
        raise ToolError("validated %d sequences but ran %d" % (len(results), len(scs)))
    return results, tv_states


def run(pid, tier, seed, replay=None):
    t0 = time.time()
    build_harness()
    mc = []
    if replay is None:
        scs = api_scen.fam_builder(seed, tier == "thorough")
        r = tlc_mc("MCBuilder.tla", "MC_Builder_t.cfg" if tier == "thorough" else "MC_Builder.cfg", "C16_builder",
                   workers=8, timeout=3000)
        mc.append({k: r[k] for k in ("cfg", "states", "distinct", "ok", "error", "wall_s")})
        log("[mc] %s: %d distinct states, ok=%s (%.1fs)" % (r["cfg"], r["distinct"], r["ok"], r["wall_s"]))
    else:
        scs = [json.load(open(replay))["scenario"]]
    wd = workdir("builder_" + pid)
    spath = os.path.join(wd, "scen.ndjson")
    with open(spath, "w") as f:
        for s in scs:
            f.write(json.dumps(s) + "\n")
    tpath = os.path.join(wd, "trace.ndjson")
    r = run_harness([os.path.join(BIN, "api_replay"), spath, tpath], 2400)
    if r.returncode != 0:
        log(r.stderr[-3000:])
        raise ToolError("api_replay failed with status %d" % r.returncode)
    note = open(tpath + ".summary").read().strip()
    log("[replay] " + note)
    # drop the system-call events: the builder spec does not use them
    slim = os.path.join(wd, "trace_slim.ndjson")
    with open(tpath) as fi, open(slim, "w") as fo:
        for ln in fi:
            if '"e":"sys"' not in ln:
                fo.write(ln)
    results, tv_states, blocks = validate_sharded("BuilderTrace.tla", "BuilderTrace.cfg", slim, "builder_" + pid)
    by_id = {s["id"]: s for s in scs}
    if len(results) != len(scs):
        raise ToolError("validated %d sequences but ran %d" % (len(results), len(scs)))
    findings = [f for f in load_findings() if f["property"] == pid and f["status"] == "known"]
    new, known_hits, seen = [], set(), set()
    for r in results:
        for v in r["viol"]:
            if not v.startswith("C16_"):
                continue
            hit = [f for f in findings if f["signature"] == v]
            if hit:
                known_hits.add(hit[0]["what"])
                continue
            if v in seen:
                continue
            seen.add(v)
            path = save_replay(pid, {"property": pid, "monitor": v, "signature": v, "engine": "builder",
                                     "scenario": by_id[r["id"]]})
            new.append(("%s fired on call sequence %s" % (v, r["id"]), path))
    cov = {
        "states": sum(m["distinct"] for m in mc) + tv_states,
        "transitions": sum(m["states"] for m in mc) + tv_states,
        "traces_validated_against_impl": len(results),
        "samples": scs[40:43],
        "evaluations": len(results),
        "distinct_nontrivial": len(set(json.dumps([s["ops"], s["term"], s["shell"]]) for s in scs if s["ops"])),
        "rule": "one evaluation = one builder call sequence + terminator executed on the real Exec (refusals = panics are "
                "caught and recorded) with the started program reporting argv/environ/cwd; distinct by sequence",
        "exhaustive": False,
        "model_checking": mc,
    }
    assumptions = [
        "L1 of spec/Builder.tla is three-valued: repeating the identical stream setting (other than Pipe/Pipe, which "
        "must be accepted) and stdin(Pipe) after input data are don't-cares; only a second DIFFERENT setting must be "
        "refused",
        "environment compared as a mapping (order is not part of the statement)",
    ]
    write_evidence(pid, tier, seed, cov, assumptions, time.time() - t0, len(new))
    return finish(pid, new, sorted(known_hits))
