"""Scenario families for the builder-level checks run by api_replay on the real kernel:
pipelines (C13, C14, C08), handles being dropped (C12)."""
import itertools
import random

TERMS = ["popen", "join", "capture", "communicate", "stream_stdout", "stream_stdin"]


def pl(i, n, shape, stdin, stdout, stderr, term, nlines, fail_at=-1, detached=False, rng=None):
    tags = ["-%s%d" % (chr(97 + k), k) for k in range(n)]
    codes = [(rng.randint(0, 255) if rng else (k * 7) % 256) for k in range(n)]
    return {"id": "pl%d" % i, "kind": "pipeline", "class": "pipeline-fail" if fail_at >= 0 else "pipeline",
            "n": n, "shape": shape, "tags": tags, "codes": codes, "elines": ["err-of-stage-%d" % k for k in range(n)],
            "stdin": stdin, "stdout": stdout, "stderr": stderr, "term": term, "nlines": nlines, "fail_at": fail_at,
            "detached": detached, "stream": False, "head": False}


def trees(seq):
    """every way the API can compose the stages seq (in this order): Exec|Exec, Pipeline|Exec, Pipeline|Pipeline"""
    if len(seq) == 1:
        return [seq[0]]
    out = []
    for k in range(1, len(seq)):
        left, right = seq[:k], seq[k:]
        if len(left) == 1 and len(right) != 1:
            continue  # Exec | Pipeline does not exist
        for lt in trees(left):
            for rt in trees(right):
                out.append([lt, rt])
    return out


def valid(term, stdin, stdout, stderr):
    """combinations the API accepts (others panic by design: e.g. data with a terminator that cannot deliver it)"""
    if term in ("capture", "communicate"):
        # stdout is forced to Pipe, stderr to the capture pipe
        return stdin in ("inherit", "data", "file", "null") and stdout == "pipe" and stderr == "capture"
    if stderr == "capture":
        return False
    if term == "stream_stdout":
        return stdin in ("inherit", "file", "null") and stdout == "pipe"
    if term == "stream_stdin":
        return stdin == "pipe" and stdout in ("file", "null", "inherit")
    if term == "join":
        return stdin in ("inherit", "file", "null") and stdout in ("inherit", "file", "null")
    if term == "popen":
        return stdin in ("inherit", "file", "null", "pipe") and stdout in ("inherit", "file", "null", "pipe")
    return False


def fam_pipelines(seed, big):
    """C13: every stage count x composition shape x stdin/stdout kinds x terminator x data size"""
    rng = random.Random(seed * 59 + 13)
    out = []
    i = 0
    shapes = {2: ["left", "iter"], 3: ["left", "iter"], 4: ["left", "iter", "pp"], 5: ["left", "pp", "iter"]}
    for n in (2, 3, 4) + ((5,) if big else ()):
        for shape in shapes[n]:
            for term in TERMS:
                for stdin, stdout, stderr in itertools.product(["inherit", "pipe", "data", "file", "null"],
                                                               ["inherit", "pipe", "file", "null"],
                                                               ["inherit", "file", "capture"]):
                    if not valid(term, stdin, stdout, stderr):
                        continue
                    if not big and rng.random() < 0.55:
                        continue
                    nlines = rng.choice([0, 1, 7, 20000 if stdout != "inherit" else 50])
                    out.append(pl(i, n, shape, stdin, stdout, stderr, term, nlines, rng=rng))
                    i += 1
    # every composition tree of 2..5 stages (the same stage sequence must result whatever the shape)
    for n in (2, 3, 4, 5):
        for t in trees(list(range(n))):
            for rep in range(3 if big else 1):
                term = rng.choice(["capture", "stream_stdout", "popen"])
                stdin, stdout, stderr = {"capture": ("data", "pipe", "capture"), "stream_stdout": ("file", "pipe", "inherit"),
                                         "popen": ("pipe", "pipe", "file")}[term]
                sc = pl(i, n, "tree", stdin, stdout, stderr, term, rng.choice([1, 7, 300]), rng=rng)
                sc["tree"] = t
                out.append(sc)
                i += 1
    # configured first, extended afterwards: (a | b).stdin(..).stdout(..).stderr_to(..) | c | d keeps what was configured
    for n in (3, 4):
        for m in range(2, n):
            for term, stdin, stdout, stderr in (("capture", "data", "pipe", "capture"), ("join", "file", "file", "file"),
                                                ("popen", "pipe", "pipe", "file"), ("stream_stdout", "file", "pipe", "inherit"),
                                                ("join", "null", "file", "inherit")):
                sc = pl(i, n, "left", stdin, stdout, stderr, term, rng.choice([1, 7, 300]), rng=rng)
                sc["config_after"] = m
                out.append(sc)
                i += 1
    # a signal handler (installed without SA_RESTART) interrupts a wait for one of the commands: the terminator still
    # returns the last command's status, after all of them have exited
    for n in (2, 3):
        for term, stdin, stdout, stderr in (("join", "file", "file", "file"), ("capture", "data", "pipe", "capture"),
                                            ("popen", "pipe", "pipe", "file")):
            for nth in (1, 2):
                sc = pl(i, n, "left", stdin, stdout, stderr, term, 7, rng=rng)
                sc["wait_eintr"] = nth
                out.append(sc)
                i += 1
    # far more input data than all the pipes of the chain hold together (every stage adds to each line, so the volume
    # grows along the chain): the input keeps being delivered in step with the output being drained
    for n in (2, 3):
        for term in ("capture", "communicate"):
            out.append(pl(i, n, "left", "data", "pipe", "capture", term, 150000, rng=rng))
            i += 1
            # (the same through commands that copy in 4 KiB units, like cat)
            sc = pl(i, n, "left", "data", "pipe", "capture", term, 150000, rng=rng)
            sc["stream"] = True
            sc["sip"] = True
            out.append(sc)
            i += 1
    # pipeline | pipeline with the input (and the error sink) configured on the left one and the output on the right one;
    # and pipelines used as templates: what runs is a clone of the configured pipeline
    for n in (4, 5):
        for term, stdin, stdout, stderr in (("capture", "data", "pipe", "capture"), ("join", "file", "file", "file"),
                                            ("popen", "pipe", "pipe", "file"), ("stream_stdout", "file", "pipe", "inherit"),
                                            ("join", "null", "file", "inherit"), ("stream_stdin", "pipe", "file", "file")):
            sc = pl(i, n, "left", stdin, stdout, stderr, term, rng.choice([1, 7, 300]), rng=rng)
            sc["split_config"] = True
            out.append(sc)
            i += 1
    for n in (2, 3):
        for shape in ("left", "iter"):
            for term, stdin, stdout, stderr in (("capture", "data", "pipe", "capture"), ("join", "file", "file", "file"),
                                                ("popen", "pipe", "pipe", "file"), ("stream_stdout", "file", "pipe", "file"),
                                                ("join", "null", "file", "file"), ("stream_stdin", "pipe", "file", "file")):
                sc = pl(i, n, shape, stdin, stdout, stderr, term, rng.choice([1, 7, 300]), rng=rng)
                sc["clone_run"] = True
                out.append(sc)
                i += 1
    # exits at once: everything upstream must then be released by SIGPIPE and the pipeline must finish
    for n in (2, 3, 4):
        for head in (False, True):
            for term, stdin, stdout, stderr in (("popen", "inherit", "pipe", "inherit"), ("join", "inherit", "null", "inherit"),
                                                ("capture", "inherit", "pipe", "capture"), ("stream_stdout", "inherit", "pipe", "inherit")):
                sc = pl(i, n, "left", stdin, stdout, stderr, term, 0, rng=rng)
                sc["stream"] = True
                sc["head"] = head
                sc["class"] = "pipeline-stream"
                out.append(sc)
                i += 1
    return out


def fam_pipeline_fail(seed, big):
    """C14: the k-th command cannot be started, for every k, stdin kind, terminator, detached or not"""
    rng = random.Random(seed * 61 + 14)
    out = []
    i = 1000
    for n in (2, 3, 4):
        for k in range(n):
            for term in TERMS:
                for stdin, stdout, stderr in itertools.product(["inherit", "pipe", "data", "file"], ["pipe", "file", "inherit"],
                                                               ["inherit", "capture"]):
                    if not valid(term, stdin, stdout, stderr):
                        continue
                    for det in (False, True):
                        if not big and rng.random() < 0.6:
                            continue
                        out.append(pl(i, n, rng.choice(["left", "iter"]), stdin, stdout, stderr, term, rng.choice([0, 3, 20000]),
                                      fail_at=k, detached=det, rng=rng))
                        i += 1
    # always: a late failure (k = n-1) behind commands that are still pushing a lot of data, every terminator
    for n in (3, 4):
        for term in TERMS:
            for stdin, stdout, stderr in (("file", "pipe", "capture"), ("data", "pipe", "capture"), ("file", "pipe", "inherit"),
                                          ("pipe", "file", "inherit"), ("file", "file", "inherit")):
                if not valid(term, stdin, stdout, stderr):
                    continue
                out.append(pl(i, n, "left", stdin, stdout, stderr, term, 20000, fail_at=n - 1, detached=False, rng=rng))
                i += 1
                # the same with streaming stages (a generator and cat-like copiers exerting back-pressure)
                for k in range(1, n):
                    sc = pl(i, n, "left", stdin, stdout, stderr, term, 0, fail_at=k, detached=False, rng=rng)
                    sc["stream"] = True
                    out.append(sc)
                    i += 1
    # a command already started is busy writing to the shared standard-error pipe of capture() / communicate() when a
    # later one fails to start
    for n in (2, 3):
        for k in range(1, n):
            for term in ("capture", "communicate"):
                for stdin in ("inherit", "data"):
                    sc = pl(i, n, "left", stdin, "pipe", "capture", term, 3, fail_at=k, detached=False, rng=rng)
                    sc["noisy"] = True
                    sc["tags"][0] = "we300000"   # (the reporting child's tag is its second argument)
                    out.append(sc)
                    i += 1
    # the calling thread has SIGPIPE blocked and the first command ignores write errors: once the attempt has failed and
    # its pipes are closed, only SIGPIPE -- which the child must have got back unblocked and at its default -- ends it
    for n, k in ((2, 1), (3, 2), (3, 1)):
        for term, stdin, stdout, stderr in (("join", "inherit", "null", "inherit"), ("popen", "inherit", "pipe", "inherit"),
                                            ("capture", "inherit", "pipe", "capture"), ("stream_stdout", "inherit", "pipe", "inherit")):
            sc = pl(i, n, "left", stdin, stdout, stderr, term, 0, fail_at=k, detached=False, rng=rng)
            sc["stream"] = True
            sc["stubborn"] = True
            sc["mask"] = [13, 10]
            out.append(sc)
            i += 1
    # a started command with a stderr pipe of its own is busy writing to it while an earlier one pushes data through the
    # pipeline, when a later command fails to start
    for n, own, k in ((3, 1, 2), (4, 2, 3), (4, 1, 3), (3, 0, 1)):
        for term, stdin, stdout in (("popen", "inherit", "pipe"), ("join", "inherit", "null"), ("stream_stdout", "inherit", "pipe"),
                                    ("stream_stdin", "pipe", "null")):
            sc = pl(i, n, "left", stdin, stdout, "inherit", term, 0, fail_at=k, detached=False, rng=rng)
            sc["stream"] = True
            sc["own_stderr"] = own
            sc["tags"][own] = "we300000"
            out.append(sc)
            i += 1
    # the parent runs with standard descriptors closed (a daemon): the launch-status pipe and the connecting pipes are made
    # on -- and moved away from -- the numbers the commands' streams are installed on
    for closed in ([0, 1], [0], [1, 2]):
        for n, k in ((2, 0), (2, 1), (3, 1), (3, 2)):
            for term, stdin, stdout, stderr in (("popen", "pipe", "pipe", "inherit"), ("join", "file", "file", "inherit"),
                                                ("stream_stdout", "file", "pipe", "inherit"), ("capture", "data", "pipe", "capture")):
                if (0 in closed and stdin == "inherit") or (2 in closed and stderr == "inherit"):
                    continue
                sc = pl(i, n, "left", stdin, stdout, stderr, term, 3, fail_at=k, detached=False, rng=rng)
                sc["closed_std"] = closed
                out.append(sc)
                i += 1
    # a signal handler (installed without SA_RESTART) interrupts one of the waits for the commands already started:
    # the failed attempt must still have reaped every one of them when it returns
    for n, k in ((2, 1), (3, 2), (3, 1), (4, 3)):
        for term, stdin, stdout, stderr in (("join", "file", "file", "inherit"), ("popen", "pipe", "pipe", "inherit"),
                                            ("capture", "data", "pipe", "capture"), ("stream_stdin", "pipe", "file", "inherit")):
            for nth in (1, 2):
                if nth > k:
                    continue
                sc = pl(i, n, "left", stdin, stdout, stderr, term, 20000, fail_at=k, detached=False, rng=rng)
                sc["wait_eintr"] = nth
                out.append(sc)
                i += 1
    return out


def fam_handles(seed, big):
    """C12: every handle kind x child behaviour x drop point x detached"""
    out = []
    i = 0
    BIG = 300000  # more than a pipe holds (64 KiB)
    readers = [("stream_stdout", "wo"), ("stream_stderr", "we"), ("popen_out", "wo"), ("pl_stream_stdout", "wo")]
    for handle, w in readers:
        for script in ([w + "10", "x0"], [w + str(BIG), "x0"], [w + str(BIG), w + str(BIG), "x3"], ["s30", w + "5", "x0"],
                       ["x1"], [w + "70000", "s20", "x0"]):
            for rd in (0, 5, 100000):
                out.append({"id": "h%d" % i, "kind": "handle", "class": "handle-read", "handle": handle, "script": script,
                            "read": rd, "detached": False})
                i += 1
    writers = ["stream_stdin", "popen_in", "pl_stream_stdin"]
    for handle in writers:
        for script in (["R", "x0"], ["r10", "R", "x2"], ["x0"], ["s30", "R", "x0"], ["r5", "ci", "s20", "x0"]):
            for wr in (0, 10, 5000):
                out.append({"id": "h%d" % i, "kind": "handle", "class": "handle-write", "handle": handle, "script": script,
                            "write": wr, "detached": False})
                i += 1
    # adapters that own further pipe ends the caller can neither read nor release
    for handle, scripts in (("pl_stream_stdin_outpipe", (["wo300000", "R", "x0"], ["R", "x0"], ["wo10", "x0"])),
                            ("stream_stdin_outpipe", (["wo300000", "R", "x0"], ["R", "wo300000", "x0"])),
                            # (stdout first, so that the caller's read returns; then stderr nobody can read)
                            ("pl_stream_stdout_errpipe", (["wo10", "we300000", "x0"], ["wo300000", "we300000", "x0"]))):
        for script in scripts:
            for wr in (0, 10):
                out.append({"id": "h%d" % i, "kind": "handle", "class": "handle-extra-pipes", "handle": handle,
                            "script": list(script), "write": wr, "read": 4, "detached": False})
                i += 1
    # the same drops in a parent that runs with standard descriptors closed (the handle's pipe ends were created on, and
    # moved away from, the numbers 0-2)
    for closed in ([0], [0, 1]):
        for handle, w in (("stream_stdout", "wo"), ("popen_out", "wo"), ("pl_stream_stdout", "wo"), ("stream_stderr", "we")):
            for script in ([w + str(BIG), w + str(BIG), "x3"], [w + "10", "s30", "x0"]):
                out.append({"id": "h%d" % i, "kind": "handle", "class": "handle-read-closed-std", "handle": handle,
                            "script": script, "read": 5, "detached": False, "closed_std": closed})
                i += 1
    for handle in ("join", "capture", "pl_join", "pl_capture", "popen_plain"):
        for script in (["x0"], ["s40", "x5"], ["wo100", "we100", "x0"], ["wo" + str(BIG), "x0"], ["k15"], ["k9"]):
            if handle in ("join", "popen_plain", "pl_join") and script[0].startswith("wo3"):
                continue
            out.append({"id": "h%d" % i, "kind": "handle", "class": "handle-term", "handle": handle, "script": script,
                        "detached": False})
            i += 1
    # capture with far more input than the child reads: the call may fail (EPIPE) but must not leave the child behind
    for handle in ("capture_data", "pl_capture_data"):
        for script in (["x0"], ["r10", "x0"], ["R", "x0"], ["s30", "x1"], ["ci", "s20", "x0"],
                       # closes its outputs first and only then reads its input to the end
                       ["co", "ce", "s100", "R", "x0"], ["wo10", "co", "ce", "R", "x0"],
                       # closes its input unread (the exchange fails with EPIPE) and goes on writing more than a pipe holds:
                       # the failing call must let go of its reading ends before it waits for the child
                       ["ci", "s20", "wo300000", "x0"], ["r10", "ci", "s20", "we300000", "x4"],
                       ["ci", "s20", "wo300000", "we300000", "x0"]):
            out.append({"id": "h%d" % i, "kind": "handle", "class": "handle-capture-data", "handle": handle,
                        "script": script, "write": 4 << 20, "detached": False, "may_fail": True})
            i += 1
    # detached handles: dropping never blocks and never reaps
    for handle in ("popen_plain", "popen_out", "popen_in"):
        for script in (["s300", "x0"], ["x0"], ["R", "x0"], ["wo" + str(BIG), "x0"]):
            out.append({"id": "h%d" % i, "kind": "handle", "class": "handle-detached", "handle": handle, "script": script,
                        "read": 0, "write": 0, "detached": True})
            i += 1
    for sc in out:
        sc.setdefault("may_fail", False)
    return out


BUILDER_OPS = (
    [["arg", a] for a in ("x", "y", "", "two words")] + [["args", ["p", "q"]], ["args", []]]
    + [["env", k, v] for k in ("A", "B", "HOME") for v in ("1", "2", "")]
    + [["env_extend", [["A", "1"], ["B", "2"]]], ["env_extend", [["A", "2"], ["A", "1"]]], ["env_extend", []]]
    # (names differing only in case are different variables)
    + [["env", "a", "9"], ["env", "home", "h"], ["env_extend", [["a", "1"], ["A", "2"], ["Home", "x"]]], ["env_remove", "a"]]
    + [["env_remove", k] for k in ("A", "B", "HOME", "NO_SUCH_VAR")] + [["env_clear"]]
    + [["cwd", d] for d in ("/tmp", "/")]
    + [["stdin", k] for k in ("pipe", "null", "file", "data-xyz", "data-", "merge")]
    + [["stdout", k] for k in ("pipe", "null", "file", "merge")]
    + [["stderr", k] for k in ("pipe", "null", "merge")]
    + [["detached"], ["clone"]]
)
BUILDER_TERMS = ["join", "capture", "popen", "stream_stdout", "stream_stderr", "stream_stdin", "communicate"]


def fam_builder(seed, big):
    """C16: every call sequence of length <= 2 over the op menu (exhaustive), seeded longer ones, clones anywhere,
    every terminator; Exec::shell with awkward strings"""
    rng = random.Random(seed * 73 + 16)
    out = []
    i = 0

    def add(ops, term, shell=None):
        nonlocal i
        out.append({"id": "b%d" % i, "kind": "builder", "class": "builder", "is_shell": shell is not None,
                    "shell": shell or "", "ops": ops, "term": term, "orig_term": rng.choice(["capture", "join"]),
                    "detached": False})
        i += 1

    for t in BUILDER_TERMS:
        add([], t)
    for op in BUILDER_OPS:
        for t in (BUILDER_TERMS if big else [rng.choice(BUILDER_TERMS), "capture"]):
            add([op], t)
    pairs = list(itertools.product(BUILDER_OPS, BUILDER_OPS))
    for (a, b) in (pairs if big else pairs[::9]):
        add([a, b], rng.choice(BUILDER_TERMS))
    for _ in range(1500 if big else 250):
        n = rng.randint(3, 12 if big else 8)
        add([rng.choice(BUILDER_OPS) for _ in range(n)], rng.choice(BUILDER_TERMS))
    # the process environment changes between the builder calls and the launch (another thread, or the caller itself,
    # calls set_var): whatever the moment the copy is taken, a name removed -- or everything cleared -- before the change
    # stays absent unless the builder sets it again ("setenv_proc" only ever touches names already edited by the builder)
    for ops in ([["env_remove", "NO_SUCH_VAR"], ["setenv_proc", "NO_SUCH_VAR", "leak"]],
                [["env_remove", "A"], ["setenv_proc", "A", "leak"], ["env", "B", "1"]],
                [["env_remove", "NO_SUCH_VAR"], ["arg", "x"], ["setenv_proc", "NO_SUCH_VAR", "leak"], ["env", "B", "2"]],
                [["env", "A", "1"], ["env_remove", "A"], ["setenv_proc", "A", "leak"]],
                [["env_clear"], ["setenv_proc", "A", "leak"]],
                [["env_remove", "A"], ["clone"], ["setenv_proc", "A", "leak"], ["env", "B", "3"]],
                [["env_remove", "B"], ["setenv_proc", "B", "leak"], ["env", "B", "set-again"]],
                [["env", "A", "mine"], ["setenv_proc", "A", "other"]]):
        for t in ("capture", "join", "popen"):
            add(ops, t)
    # the value asked for equals the parent's at the time of the call, and the parent's changes before the launch (a
    # template built once, a guard restoring a temporary variable): what was asked for is what the child gets
    for ops in ([["setenv_proc", "A", "one"], ["env", "A", "one"], ["setenv_proc", "A", "uno"]],
                [["setenv_proc", "A", "one"], ["setenv_proc", "B", "two"], ["env_extend", [["A", "one"], ["B", "two"]]],
                 ["setenv_proc", "A", "uno"], ["setenv_proc", "B", "dos"]],
                [["setenv_proc", "A", "one"], ["env", "A", "one"], ["clone"], ["setenv_proc", "A", "uno"], ["arg", "x"]]):
        for t in ("capture", "join"):
            add(ops, t)
    # names and values that are not valid UTF-8 (legal on Unix), set through the builder or merely inherited next to an
    # unrelated edit: they reach the child byte for byte
    H = "\u0001hex:"
    for ops in ([["env", "RAWV", H + "636166e9ff"]], [["env_extend", [[H + "4eff", "v"], ["K", H + "fe"]]]],
                [["setenv_proc", "A", H + "e9e8"], ["env", "A", H + "e9e8"], ["env", "B", "1"]],
                [["env", "A", H + "ff"], ["clone"], ["env", "B", H + "fe"]]):
        for t in ("capture", "join"):
            add(ops, t)
    # the process environment changes BEFORE the command's first environment edit (also: after an earlier command on the
    # same thread has edited its own): the command inherits what is there when it starts editing
    for ops in ([["setenv_proc", "ZED1", "1"], ["env", "B", "1"]], [["arg", "x"], ["setenv_proc", "ZED2", "2"], ["env_remove", "NO_SUCH_VAR"]],
                [["setenv_proc", "ZED3", "3"], ["env_extend", [["B", "2"]]], ["clone"], ["env", "C", "3"]]):
        for t in ("capture", "join"):
            add(ops, t)
    # an empty variable name (an entry "=value" in the environment block): an edit like any other
    for ops in ([["env", "", "x"]], [["env", "", "x"], ["env", "A", "1"], ["env_remove", ""]], [["env_extend", [["", "y"], ["B", "2"]]]]):
        for t in ("capture", "join"):
            add(ops, t)
    for sh in ("true", "true a  b 'c d'", "exit 0", "true \"$HOME\" ; true", "", "true\nnewline", "echo 'it''s' >/dev/null"):
        add([], "join", shell=sh)
        add([["arg", "extra arg"], ["env", "A", "1"]], "capture", shell=sh)
    return out


def fam_race(seed, big):
    """C08: two threads launch concurrently; thread B's complete launch is placed before each of thread A's
    parent-side system calls in turn (every single-preemption interleaving)"""
    out = []
    i = 0
    confs = [(["pipe", "pipe", "pipe"], ["none", "pipe", "none"]), (["none", "pipe", "none"], ["pipe", "pipe", "pipe"])]
    if big:
        confs += [(["pipe", "none", "pipe"], ["pipe", "none", "none"]), (["none", "none", "none"], ["none", "none", "pipe"])]
    for (a, b) in confs:
        for at in range(0, 26):
            out.append({"id": "race%d" % i, "kind": "race", "class": "race", "switch_at": at, "a": a, "b": b,
                        "detached": False})
            i += 1
    return out


def fam_builder_env(seed, big):
    """C06 through the builder: what the child sees (argv, environment, cwd) for sequences of arg/env edits"""
    rng = random.Random(seed * 79 + 6)
    ops = [o for o in BUILDER_OPS if o[0] in ("arg", "args", "env", "env_extend", "env_remove", "env_clear", "cwd")]
    ops += [["env_extend", [["K", "1"], ["K", "2"]]], ["env", "K", "3"], ["env_extend", [["HOME", "b"]]], ["env", "HOME", "c"]]
    out = []
    for j in range(400 if big else 120):
        n = rng.randint(1, 7)
        out.append({"id": "be%d" % j, "kind": "builder", "class": "builder-env", "is_shell": False, "shell": "",
                    "ops": [rng.choice(ops) for _ in range(n)], "term": rng.choice(["capture", "join"]),
                    "orig_term": "capture", "detached": False})
    # the process environment changes between the builder calls and the launch; names / values that are not UTF-8
    H = "\u0001hex:"
    for j, ops2 in enumerate([
            [["setenv_proc", "A", "one"], ["env", "A", "one"], ["setenv_proc", "A", "uno"]],
            [["setenv_proc", "A", "one"], ["setenv_proc", "B", "two"], ["env_extend", [["A", "one"], ["B", "two"]]],
             ["setenv_proc", "A", "uno"], ["setenv_proc", "B", "dos"]],
            [["env_remove", "NO_SUCH_VAR"], ["setenv_proc", "NO_SUCH_VAR", "leak"]],
            [["env", "RAWV", H + "636166e9ff"]], [["env_extend", [[H + "4eff", "v"], ["K", H + "fe"]]]],
            [["setenv_proc", "A", H + "e9e8"], ["env", "A", H + "e9e8"], ["env", "B", "1"]]]):
        out.append({"id": "bex%d" % j, "kind": "builder", "class": "builder-env", "is_shell": False, "shell": "",
                    "ops": ops2, "term": "capture", "orig_term": "capture", "detached": False})
    return out
