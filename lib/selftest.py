"""./check --selftest: checks of the machinery itself.

 A. sensitivity of the algorithm models: every defective variant (a switch set to the pinned / broken behaviour) must
    give TLC a counterexample, every faithful configuration used here must pass;
 B. vacuity: the reachability witnesses (bad-looking but legitimate states) must be REACHABLE, i.e. the invariants
    `~witness` must be violated;
 C. binding of the trace specifications: recorded executions of the real code are accepted; the same records with
    one field corrupted, one event removed or two events swapped are rejected or make a monitor fire.

Exit 0 when everything behaves as expected, 2 otherwise (this is a test of the tools, not of the library)."""
import json
import os
import re

from . import proc_scen
from .common import (BIN, SPEC, ToolError, build_harness, log, run_harness, tlc_mc, tlc_trace, workdir)


def variant(base_cfg, name, **over):
    """write spec/<name>.cfg = base with constants / invariants replaced; returns the file name"""
    txt = open(os.path.join(SPEC, base_cfg)).read()
    for k, v in over.items():
        if k == "INVARIANT":
            txt = re.sub(r"^INVARIANT.*$", "INVARIANT " + v, txt, flags=re.M)
        else:
            txt, n = re.subn(r"^(\s*%s\s*(=|<-)\s*).*$" % re.escape(k), lambda m: m.group(1) + v, txt, flags=re.M)
            if n != 1:
                raise ToolError("selftest: constant %s not found in %s" % (k, base_cfg))
    fn = "ST_%d_%s.cfg" % (os.getpid(), name)
    with open(os.path.join(SPEC, fn), "w") as f:
        f.write(txt)
    return fn


def mc_expect(module, base, name, expect_ok, **over):
    fn = variant(base, name, **over)
    try:
        r = tlc_mc(module, fn, "st_" + name, workers=8, timeout=900, expect_error=True)
    finally:
        os.unlink(os.path.join(SPEC, fn))
    good = r["ok"] == expect_ok
    log("[selftest] %-34s %-28s %s (%d distinct states%s)" % (
        name, "expected " + ("pass" if expect_ok else "counterexample"), "as expected" if good else "NOT AS EXPECTED",
        r["distinct"], "" if r["ok"] else "; " + (r["error"] or "")[:70]))
    return good


def part_a():
    ok = True
    ok &= mc_expect("MCComm.tla", "MC_Comm_timeq.cfg", "comm_F6_no_expiry_flag", False, FixF6="FALSE")
    ok &= mc_expect("MCComm.tla", "MC_Comm_dl2.cfg", "comm_F7_pollerr_ignored", False, FixF7="FALSE")
    ok &= mc_expect("MCComm.tla", "MC_Comm_dl2.cfg", "comm_write_chunk_too_big", False, WriteSize="3", InLen="6")
    ok &= mc_expect("MCProc.tla", "MC_Proc_q.cfg", "proc_signals_not_gated", False, GateSignals="FALSE")
    ok &= mc_expect("MCProc.tla", "MC_Proc_q.cfg", "proc_pid_not_checked", False, CheckPid="FALSE")
    ok &= mc_expect("MCSpawn.tla", "MC_Spawn_2.cfg", "spawn_pipe_then_fcntl", False)
    ok &= mc_expect("MCSpawn.tla", "MC_Spawn_2a.cfg", "spawn_pipe2", True)
    ok &= mc_expect("Drop.tla", "MC_Drop_pinned.cfg", "drop_wait_before_close", False)
    ok &= mc_expect("Drop.tla", "MC_Drop_noreadfix.cfg", "drop_adapter_closes_one_end", False)
    ok &= mc_expect("Drop.tla", "MC_Drop_noerrfix.cfg", "drop_stderr_end_held_during_wait", False)
    ok &= mc_expect("Drop.tla", "MC_Drop_norelease.cfg", "drop_ends_released_one_popen_at_a_time", False)
    ok &= mc_expect("Drop.tla", "MC_Drop.cfg", "drop_repaired", True)
    ok &= mc_expect("MCPipeline.tla", "MC_Pipeline_clone.cfg", "pipeline_stdout_cloned", False)
    ok &= mc_expect("MCPipeline.tla", "MC_Pipeline_rebuild.cfg", "pipeline_rebuilt_on_append", False)
    ok &= mc_expect("MCPipeline.tla", "MC_Pipeline.cfg", "pipeline_faithful", True)
    ok &= mc_expect("MCCommWin.tla", "MC_CommWin_pinned_dl.cfg", "commwin_F15_no_deadline_check", False)
    ok &= mc_expect("MCCommWin.tla", "MC_CommWin_pinned_eof.cfg", "commwin_F16_close_after_send", False)
    ok &= mc_expect("MCCommWin.tla", "MC_CommWin_pinned_err.cfg", "commwin_F17_bit_kept_on_error", False)
    ok &= mc_expect("MCCommWin.tla", "MC_CommWin_a.cfg", "commwin_repaired", True)
    ok &= mc_expect("Launch.tla", "MC_Launch_c07g.cfg", "launch_state_set_after_status_read", False)
    ok &= mc_expect("Launch.tla", "MC_Launch_f24.cfg", "launch_F24_status_read_not_retried", False)
    ok &= mc_expect("Launch.tla", "MC_Launch_f2.cfg", "launch_F2_detached_failure_not_reaped", False)
    ok &= mc_expect("Launch.tla", "MC_Launch_c07h.cfg", "launch_child_errno_read_as_own_EINTR", False)
    ok &= mc_expect("Launch.tla", "MC_Launch.cfg", "launch_faithful", True)
    ok &= mc_expect("PathSearch.tla", "MC_PathSearch_execvp_empty.cfg", "pathsearch_empty_entry_is_cwd", False)
    ok &= mc_expect("PathSearch.tla", "MC_PathSearch_execvp_sh.cfg", "pathsearch_enoexec_runs_through_sh", False)
    ok &= mc_expect("PathSearch.tla", "MC_PathSearch_firstonly.cfg", "pathsearch_room_for_first_entry_only", False)
    ok &= mc_expect("PathSearch.tla", "MC_PathSearch_f13.cfg", "pathsearch_F13_no_attempt_no_error", False)
    ok &= mc_expect("PathSearch.tla", "MC_PathSearch.cfg", "pathsearch_faithful", True)
    ok &= mc_expect("MCShQuote.tla", "MC_ShQuote.cfg", "shquote_F10_empty_argument", False, FixEmpty="FALSE")
    ok &= mc_expect("MCWinEnv.tla", "MC_WinEnv_pinned.cfg", "winenv_F20_nul_not_refused", False)
    return ok


def part_b():
    ok = True
    for w in ("W_ChildBlockedOnFullOut", "W_ParentSeesStdinFull"):
        ok &= mc_expect("MCComm.tla", "MC_Comm_dl2.cfg", "reach_" + w, False, INVARIANT=w)
    for w in ("W_TimedOut",):
        ok &= mc_expect("MCComm.tla", "MC_Comm_timeq.cfg", "reach_" + w, False, INVARIANT=w)
    ok &= mc_expect("MCComm.tla", "MC_Comm_lim.cfg", "reach_W_LimitHit", False, INVARIANT="W_LimitHit")
    ok &= mc_expect("MCCommWin.tla", "MC_CommWin_limtime.cfg", "reach_win_W_Leftover", False, INVARIANT="W_Leftover")
    ok &= mc_expect("MCCommWin.tla", "MC_CommWin_limtime.cfg", "reach_win_W_TimedOut", False, INVARIANT="W_TimedOut")
    ok &= mc_expect("MCCommWin.tla", "MC_CommWin_lim.cfg", "reach_win_W_TwoSenders", False, INVARIANT="W_TwoSenders")
    return ok


def corruptions(lines):
    """yield (name, corrupted lines, what must happen)"""
    evs = [json.loads(x) for x in lines]
    # 1. a waitpid that returned the child's status now reports another status
    for i, e in enumerate(evs):
        if e["e"] == "waitpid" and e.get("ret", 0) > 0 and "st" in e and e["st"]["k"] in ("exited", "signaled"):
            e2 = json.loads(lines[i])
            e2["st"]["v"] = (e2["st"]["v"] + 1) % 200
            yield ("status field of a waitpid record changed", lines[:i] + [json.dumps(e2) + "\n"] + lines[i + 1:], "any")
            break
    # 2. the record of a successful waitpid removed: the handle then reports a status nobody gave it
    for i, e in enumerate(evs):
        if e["e"] == "waitpid" and e.get("ret", 0) > 0:
            yield ("a waitpid record removed", lines[:i] + lines[i + 1:], "any")
            break
    # 3. an API return moved in front of its call
    for i, e in enumerate(evs):
        if e["e"] == "apiret" and i > 0 and evs[i - 1]["e"] == "api":
            yield ("an API return swapped with its call", lines[:i - 1] + [lines[i], lines[i - 1]] + lines[i + 1:], "reject")
            break
    # 4. the clock of a return set back before the call
    for i, e in enumerate(evs):
        if e["e"] == "apiret" and e["op"] == "wait_timeout" and e["now"] != [0, 0]:
            e2 = json.loads(lines[i])
            e2["now"] = [0, 0]
            yield ("the instant of a wait_timeout return set back to 0", lines[:i] + [json.dumps(e2) + "\n"] + lines[i + 1:], "any")
            break


def part_c(seed):
    build_harness()
    wd = workdir("selftest")
    scs = [s for s in proc_scen.fam_history(seed, 12, False) if s["exit"].get("at") is not None][:6]
    scs += proc_scen.fam_timing(seed, 0, False)[40:44]
    sp = os.path.join(wd, "scen.ndjson")
    with open(sp, "w") as f:
        for s in scs:
            f.write(json.dumps(s) + "\n")
    tp = os.path.join(wd, "trace.ndjson")
    r = run_harness([os.path.join(BIN, "proc_replay"), sp, tp], 300)
    if r.returncode != 0:
        raise ToolError("selftest: proc_replay failed")
    lines = open(tp).readlines()
    base = tlc_trace("ProcTrace.tla", "ProcTrace.cfg", tp, "st_base")
    clean = base["accepted"] and all(not x["viol"] for x in base["results"])
    log("[selftest] %-62s %s" % ("recorded executions of the real Popen: accepted, no monitor fires",
                                 "as expected" if clean else "NOT AS EXPECTED"))
    ok = clean
    n = 0
    for name, cl, want in corruptions(lines):
        n += 1
        cp = os.path.join(wd, "corrupt%d.ndjson" % n)
        with open(cp, "w") as f:
            f.writelines(cl)
        res = tlc_trace("ProcTrace.tla", "ProcTrace.cfg", cp, "st_c%d" % n)
        fired = sorted(set(v for x in res["results"] for v in x["viol"]))
        rejected = not res["accepted"]
        good = rejected if want == "reject" else (rejected or bool(fired))
        log("[selftest] %-62s %s (%s)" % (name, "detected" if good else "NOT DETECTED",
                                          "rejected by the trace specification" if rejected
                                          else "monitors " + " ".join(fired)))
        ok &= good
    if n < 3:
        log("[selftest] too few corruptions could be constructed (%d)" % n)
        ok = False
    return ok


def run(seed):
    a = part_a()
    b = part_b()
    c = part_c(seed)
    log("[selftest] model sensitivity %s; reachability witnesses %s; trace binding %s" % (
        "ok" if a else "FAILED", "ok" if b else "FAILED", "ok" if c else "FAILED"))
    return 0 if (a and b and c) else 2
