"""C01-C04: communicate.  Comm.tla (algorithm over CommEnv) is model-checked by TLC; the real
Communicator is driven over the simulated kernel along seeded / exhaustive schedules (comm_replay) and every
recorded execution is validated by TLC against CommTrace.tla, whose monitors decide the verdict."""
import json
import os
import subprocess
import time

from . import comm_scen
from .common import (harness_limits, BIN, ToolError, build_harness, finish, load_findings, log, save_replay, tlc_mc,
                     validate_sharded, workdir, write_evidence)

PREFIX = {"C01": "C01_", "C02": "C02_", "C03": "C03_", "C04": "C04_"}

MC_CFGS = {
    ("C01", "quick"): ["MC_Comm_dl2.cfg", "MC_Comm_dl3.cfg"],
    ("C01", "thorough"): ["MC_Comm_dl2.cfg", "MC_Comm_dl3.cfg", "MC_Comm_short.cfg", "MC_Comm_live.cfg"],
    ("C02", "quick"): ["MC_Comm_short.cfg", "MC_Comm_dl2.cfg"],
    ("C02", "thorough"): ["MC_Comm_short.cfg", "MC_Comm_dl2.cfg", "MC_Comm_dl3.cfg"],
    ("C03", "quick"): ["MC_Comm_lim.cfg"],
    ("C03", "thorough"): ["MC_Comm_lim.cfg", "MC_Comm_lim2.cfg"],
    ("C04", "quick"): ["MC_Comm_timeq.cfg"],
    ("C04", "thorough"): ["MC_Comm_timeq.cfg", "MC_Comm_time.cfg"],
}


def scenarios(pid, tier, seed):
    big = tier == "thorough"
    sc = []
    if pid == "C01":
        sc += comm_scen.fam_deadlock(seed, 400 if big else 60, 6 if big else 2, 4000 if big else 600)
        sc += comm_scen.fam_data(seed, 60 if big else 15, 2)
        sc += comm_scen.fam_time(seed, 60 if big else 15, 2)
        sc += comm_scen.fam_limit(seed, 60 if big else 20, 2)
        sc += comm_scen.fam_eintr(seed, 100 if big else 25, 2)
    elif pid == "C02":
        sc += comm_scen.fam_data(seed, 900 if big else 150, 4 if big else 2)
        sc += comm_scen.fam_deadlock(seed, 100 if big else 20, 2, 0)
        sc += comm_scen.fam_limit(seed, 60 if big else 15, 2)
        sc += comm_scen.fam_time(seed, 150 if big else 40, 2)
        sc += comm_scen.fam_text(seed, 400 if big else 80, 2)
        sc += comm_scen.fam_eintr(seed, 300 if big else 60, 3)
    elif pid == "C03":
        sc += comm_scen.fam_limit(seed, 900 if big else 150, 4 if big else 2)
        sc += comm_scen.fam_data(seed, 60 if big else 15, 2)
        # (the text-returning variant with limits that cut multi-byte characters)
        sc += [x for x in comm_scen.fam_text(seed, 200 if big else 60, 2) if any("limit" in c for c in x["calls"])]
        sc += comm_scen.fam_eintr(seed, 200 if big else 50, 3)
    elif pid == "C04":
        sc += comm_scen.fam_time(seed, 700 if big else 120, 4 if big else 2)
        sc += comm_scen.fam_limit(seed, 40 if big else 10, 2)
        sc += comm_scen.fam_eintr(seed, 100 if big else 25, 2)
    return sc


def run_replay(scen_path, trace_path, seed):
    start, notes = 0, []
    for _ in range(400):
        r = subprocess.run([os.path.join(BIN, "comm_replay"), scen_path, trace_path, "--seed", str(seed),
                            "--start-line", str(start)],
                           stdout=subprocess.PIPE, stderr=subprocess.PIPE, text=True, timeout=1500, start_new_session=True,
                           preexec_fn=harness_limits)
        if r.returncode == 3 and "RESUME" in r.stderr:
            # the library span without system calls in one scenario (recorded as cpu_spin); carry on after it
            start = int(r.stderr.split("RESUME")[1].split()[0])
            notes.append(("abort" if "aborted the process" in r.stderr else "cpu_spin") + " before line %d" % start)
            if len(notes) >= 12:
                # plenty of evidence; do not burn CPU on every remaining scenario
                return "; ".join(notes + ["stopped after 12 CPU spins"])
            continue
        if r.returncode != 0:
            log(r.stderr[-3000:])
            raise ToolError("comm_replay failed with status %d" % r.returncode)
        if "interposed calls seen: 0" in r.stderr:
            raise ToolError("interposition is silent: the library's system calls do not reach the harness")
        return "; ".join(notes + [r.stderr.strip().splitlines()[-1]])
    raise ToolError("comm_replay kept spinning")


def block_info(block):
    first = json.loads(block[0])
    last = json.loads(block[-1]) if block[-1].strip() else {}
    for ln in reversed(block):
        ev = json.loads(ln)
        if ev.get("e") == "end":
            last = ev
            break
    return first.get("id"), last.get("choices", [])


def signature(viol, sc):
    """class of a failing exchange, used to match known findings (specific: monitor + scenario shape)"""
    ops = [o[0] for o in sc["child"]]
    shape = []
    if "flood" in ops:
        shape.append("flood")
    if any(o[0] == "close" and o[1] == "in" for o in sc["child"] if len(o) > 1):
        shape.append("child-closes-stdin")
    if any("tlim" in c for c in sc["calls"]):
        shape.append("tlim")
    return "%s/%s" % (viol, "+".join(shape) or "plain")


def run(pid, tier, seed, replay=None):
    t0 = time.time()
    build_harness()
    if replay is not None and json.load(open(replay)).get("engine") == "commwin":
        from . import c_commwin
        findings = [f for f in load_findings() if f["property"] == pid and f["status"] == "known"]
        _, wnew, wknown, _, _ = c_commwin.run(pid, tier, seed, findings, PREFIX[pid], json.load(open(replay))["scenario"])
        return finish(pid, wnew, sorted(wknown))
    wd = workdir("comm_" + pid)
    mc = []
    if replay is None:
        for cfg in MC_CFGS[(pid, tier)]:
            if not os.path.exists(os.path.join(os.path.dirname(__file__), "..", "spec", cfg)):
                continue
            r = tlc_mc("MCComm.tla", cfg, "%s_%s" % (pid, cfg[:-4]), workers=8)
            mc.append({k: r[k] for k in ("cfg", "states", "distinct", "ok", "error", "wall_s")})
            log("[mc] %s: %d distinct states, ok=%s (%.1fs)" % (cfg, r["distinct"], r["ok"], r["wall_s"]))
        scs = scenarios(pid, tier, seed)
        # spec -> implementation: behaviours generated by TLC from the algorithm model, replayed into the real code
        from . import comm_gen
        gen = comm_gen.generate(seed, 400 if tier == "thorough" else 80)
        log("[gen] %d distinct TLC-generated behaviours of Comm.tla to replay" % len(gen))
        scs += gen
    else:
        payload = json.load(open(replay))
        sc = payload["scenario"]
        sc.pop("runs", None)
        sc.pop("dfs", None)
        if "events" not in sc:
            sc["script"] = payload["choices"]
        scs = [sc]
    by_id = {}
    scen_path = os.path.join(wd, "scen.ndjson")
    with open(scen_path, "w") as f:
        for s in scs:
            by_id[s["id"]] = s
            f.write(json.dumps(s) + "\n")
    trace_path = os.path.join(wd, "trace.ndjson")
    note = run_replay(scen_path, trace_path, seed)
    log("[replay] " + note)
    results, tv_states, blocks = validate_sharded("CommTrace.tla", "CommTrace.cfg", trace_path, "comm_" + pid)
    blk = {}
    for b in blocks:
        bid, choices = block_info(b)
        blk[bid] = (b, choices)
    if len(results) != len(blk):
        raise ToolError("validated %d exchanges but recorded %d" % (len(results), len(blk)))

    findings = [f for f in load_findings() if f["property"] == pid and f["status"] == "known"]
    new, known_hits, others, unrep = [], set(), {}, 0
    nontrivial = set()
    for r in results:
        if r["sanity"]:
            raise ToolError("environment self-consistency failed in %s: %s" % (r["id"], r["sanity"]))
        if r["extra"] and r["extra"][0] == "TRUE":
            unrep += 1
            continue
        base = r["id"].split("#")[0]
        sc = by_id.get(base, by_id.get(r["id"]))
        b, choices = blk[r["id"]]
        # non-trivial: the exchange made the library wait at least once or split data over several calls
        if any('"p_block"' in ln for ln in b) or sum(1 for ln in b if '"e":"ret"' in ln) > 1:
            nontrivial.add(hash("".join(b[1:-1])))
        for v in r["viol"]:
            if not v.startswith(PREFIX[pid]):
                others[v] = others.get(v, 0) + 1
                continue
            sig = signature(v, sc)
            hit = [f for f in findings if f["signature"] == sig]
            if hit:
                known_hits.add(hit[0]["what"])
                continue
            path = save_replay(pid, {"property": pid, "monitor": v, "signature": sig, "engine": "comm",
                                     "scenario": sc, "choices": choices, "trace": [json.loads(x) for x in b]})
            new.append(("%s fired in exchange %s (%s)" % (v, r["id"], sig), path))
    # refinement (informational): did the real code issue exactly the system calls of the model's behaviour
    drift, same = [], 0
    for bid, (b, _) in blk.items():
        sc = by_id.get(bid)
        if not sc or "expect_sys" not in sc:
            continue
        real = [json.loads(x)["e"] for x in b if '"e":"p_' in x]
        real = [e for e in real if e in ("p_poll", "p_write", "p_read", "p_close")]
        if real == sc["expect_sys"]:
            same += 1
        else:
            drift.append(bid)
    if drift:
        log("MODEL-DRIFT property=%s: %d of %d replayed TLC behaviours took other system calls than Comm.tla predicts "
            "(first: %s) -- informational, the verdict comes from the monitors" % (pid, len(drift), len(drift) + same, drift[0]))
    # keep one replay per (monitor, signature)
    seen, uniq = set(), []
    for what, path in new:
        key = what.split(" fired")[0] + what[what.rfind("("):]
        if key in seen:
            continue
        seen.add(key)
        uniq.append((what, path))
    # the second implementation: the thread-based communicator on the real kernel
    win = {}
    if replay is None:
        from . import c_commwin
        wmc, wnew, wknown, wothers, win = c_commwin.run(pid, tier, seed, findings, PREFIX[pid])
        mc += wmc
        uniq += wnew
        known_hits |= wknown
        for kk, vv in wothers.items():
            others[kk] = others.get(kk, 0) + vv
        tv_states += win.get("trace_validation_states", 0)
    # Exec/Pipeline::capture and communicate are communicate-style exchanges too: pipelines on the real kernel whose
    # last command stops reading (head-like) or that push more than the pipes hold must finish
    pl = {}
    if replay is None and pid == "C01":
        from . import api_scen, c_api
        pscs = [x for x in api_scen.fam_pipelines(seed, tier == "thorough")
                if x["term"] in ("capture", "communicate") and (x.get("stream") or x["nlines"] >= 20000)]
        # ... and single commands / pipelines run through capture() with much input, against children that exit early,
        # read little, or close their outputs before they read their input
        pscs += [x for x in api_scen.fam_handles(seed, False) if x["handle"] in ("capture", "capture_data", "pl_capture", "pl_capture_data")]
        # ... and pipelines run through capture()/communicate() whose k-th command cannot be started
        pscs += [x for x in api_scen.fam_pipeline_fail(seed, False) if x["term"] in ("capture", "communicate")
                 and (x.get("noisy") or x.get("stream"))]
        # ... and captures beside a thread that keeps starting unrelated programs (the kernel picks the interleavings)
        pscs += [{"id": "capstress%d" % j, "kind": "capstress", "class": "capstress", "rounds": 30 if tier == "thorough" else 12,
                  "n": 3 + j % 2, "detached": False} for j in range(4 if tier == "thorough" else 2)]
        presults, pstates, pblocks, pnote = c_api.run_api(pid, tier, seed, pscs, "C01pl")
        pnew, pknown, pothers, _, _ = c_api.classify(pid, pscs, presults, pblocks, PREFIX[pid], "api")
        uniq += pnew
        known_hits |= set(pknown)
        tv_states += pstates
        pl = {"pipelines_run_through_capture_or_communicate": len(presults), "note": pnote}
    if replay is None and pid == "C02":
        # capture()/communicate() of pipelines that are given input data: the data reaches the first command (once,
        # in order, then end-of-file) however the pipeline was put together, and what comes back is what the last wrote
        from . import api_scen, c_api
        pscs = [x for x in api_scen.fam_pipelines(seed, tier == "thorough")
                if x["term"] in ("capture", "communicate") and x["stdin"] == "data" and not x.get("stream")]
        special = [x for x in pscs if x.get("split_config") or x.get("clone_run") or x.get("config_after") or x.get("tree")]
        rest = [x for x in pscs if x not in special]
        pscs = special + (rest if tier == "thorough" else rest[::3])
        presults, pstates, pblocks, pnote = c_api.run_api(pid, tier, seed, pscs, "C02pl")
        pnew, pknown, pothers, _, _ = c_api.classify(pid, pscs, presults, pblocks, PREFIX[pid], "api")
        uniq += pnew
        known_hits |= set(pknown)
        tv_states += pstates
        pl = {"pipelines_with_input_data_run_through_capture_or_communicate": len(presults), "note": pnote}
        # communicate() of single commands under every combination of output settings: a stream is captured iff it was
        # piped (stdout also when nothing was configured), anything else is reported as absent
        from . import c_builder
        bscs = []
        for so in (None, "pipe", "null", "file"):
            for se in (None, "pipe", "null", "merge"):
                ops = ([["stdout", so]] if so else []) + ([["stderr", se]] if se else [])
                for extra in ([], [["arg", "x"]]):
                    bscs.append({"id": "bs%d" % len(bscs), "kind": "builder", "class": "builder-streams", "is_shell": False,
                                 "shell": "", "ops": ops + extra, "term": "communicate", "orig_term": "capture", "detached": False})
        bres, bstates = c_builder.run_sequences(bscs, "C02b")
        bby = {x["id"]: x for x in bscs}
        bseen = set()
        for r in bres:
            for v in r["viol"]:
                if v.startswith("C02_") and v not in bseen:
                    bseen.add(v)
                    path = save_replay(pid, {"property": pid, "monitor": v, "signature": v + "/builder", "engine": "builder",
                                             "scenario": bby[r["id"]]})
                    uniq.append(("%s fired for builder sequence %s" % (v, r["id"]), path))
        tv_states += bstates
        pl["builder_sequences_with_communicate"] = len(bres)
    samples = []
    for bid in list(blk)[:2]:
        samples.append({"exchange": bid, "scenario": by_id.get(bid.split("#")[0]),
                        "trace_head": [json.loads(x) for x in blk[bid][0][:12]]})
    cov = {
        "states": sum(m["distinct"] for m in mc) + tv_states,
        "transitions": sum(m["states"] for m in mc) + tv_states,
        "traces_validated_against_impl": len(results) + win.get("exchanges", 0),
        "samples": samples,
        "evaluations": len(results) + win.get("exchanges", 0),
        "distinct_nontrivial": len(nontrivial),
        "rule": "one evaluation = one exchange of the real Communicator over the simulated kernel along one "
                "schedule, validated by TLC against CommTrace.tla; non-trivial = the library had to wait "
                "(p_block) at least once or the exchange spans several read() calls; distinct by event sequence",
        "exhaustive": False,
        "model_checking": mc,
        "trace_validation_states": tv_states,
        "scenarios": len(scs),
        "skipped_unrepresentable": unrep,
        "monitors_of_other_properties_fired": others,
        "replay_note": note,
        "real_kernel_exchanges": win,
        "pipeline_capture": pl,
        "tlc_generated_behaviours_replayed": sum(1 for s in scs if "events" in s),
        "refinement": {"behaviours_replayed": same + len(drift), "same_system_call_sequence_as_model": same,
                       "drift_examples": drift[:3]},
    }
    assumptions = [
        "kernel pipe/poll semantics as in spec/CommEnv.tla (POSIX byte model: POLLOUT iff PIPE_BUF bytes free; "
        "POLLERR on a reader-less pipe; POLLHUP on a writer-less pipe); PIPE_BUF = 4096",
        "link-time interposition reaches every read/write/poll/close/clock_gettime the library issues (canary "
        "checked on every run)",
        "bounded model checking: constants in the MC_Comm_*.cfg files",
    ]
    mc_bad = [m for m in mc if not m["ok"]]
    if mc_bad:
        log("[mc] DESIGN-LEVEL counterexample in the algorithm model (not a verdict by itself): %s" % mc_bad)
    write_evidence(pid, tier, seed, cov, assumptions, time.time() - t0, len(uniq))
    return finish(pid, uniq, sorted(known_hits))
