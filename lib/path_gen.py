"""TLC-generated behaviours of PathSearch.tla (spec -> implementation): model checking MC_PathSearch_gen.cfg prints, for
every PATH shape of up to three entries over the seven candidate kinds, which entry's program runs or which errno the
launch reports.  Every shape becomes a launch on a real directory tree (spawn_scen.PathMaker); compare() checks the
real outcome -- the program image that reports in, or the errno Popen::create returns -- against the model's."""
import json
import os
import re
import subprocess

from .common import SPEC, ToolError, log, workdir

MAP = {"empty": "", "toolong": "toolong-file@4095"}


def generate():
    wd = workdir("pathgen")
    r = subprocess.run(["tlc", "-workers", "1", "-metadir", os.path.join(wd, "md"), "-cleanup", "-noGenerateSpecTE",
                        "-config", "MC_PathSearch_gen.cfg", "PathSearch.tla"], cwd=SPEC,
                       env=dict(os.environ, JAVA_TOOL_OPTIONS="-Djava.io.tmpdir=" + wd),
                       stdout=subprocess.PIPE, stderr=subprocess.STDOUT, text=True, timeout=900)
    if "No error has been found" not in r.stdout:
        log(r.stdout[-2000:])
        raise ToolError("TLC could not run the behaviour generator (PathSearch)")
    shapes = {}
    for m in re.finditer(r'<<"PATHSEARCH", <<(.*?)>>, "(\w+)", (\d+), (\d+)>>', r.stdout):
        kinds = tuple(x.strip().strip('"') for x in m.group(1).split(",")) if m.group(1).strip() else ()
        pred = (m.group(2), int(m.group(3)), int(m.group(4)) if m.group(2) == "none" else 0)
        if shapes.setdefault(kinds, pred) != pred:
            raise ToolError("PathSearch.tla predicts two different outcomes for PATH shape %r" % (kinds,))
    return shapes


def scenarios(maker, shapes, every=1):
    out = []
    for n, (kinds, pred) in enumerate(sorted(shapes.items())):
        if n % every:
            continue
        ents = []
        for j, k in enumerate(kinds):
            k2 = MAP.get(k, k)
            if k == "toolong" and j % 2:
                k2 = "toolong-dir@4096"
            ents.append(k2)
        sc = maker.mk(ents, "cmdg")
        sc["id"] = "pgen-" + sc["id"]
        sc["class"] = "path-generated" if any(k != "empty" for k in kinds) else "path-only-empty"
        sc["model"] = {"kinds": list(kinds), "how": pred[0], "idx": pred[1], "errno": pred[2]}
    return [s for s in maker.out if "model" in s]


def compare(sc, block):
    evs = [json.loads(x) for x in block]
    res = [e for e in evs if e.get("e") == "result"]
    if not res:
        return "no result recorded"
    res = res[0]
    m = sc["model"]
    rep = [e for e in evs if e.get("e") == "report"]
    if m["how"] == "entry":
        want = sc["path_entries"][m["idx"] - 1][0] + "2f" + sc["cmd"]
        got = rep[0]["exe"] if (res["ok"] and rep) else "error %d" % res.get("errno", -1)
        return None if got == want else "model: entry %d runs, code: %s" % (m["idx"], got)
    got = "ok" if res["ok"] else res["errno"]
    return None if got == m["errno"] else "model: errno %d, code: %r" % (m["errno"], got)
