"""Scenario families for the launch checks (C05-C08, C15, C17, C18) run by spawn_replay on the real kernel."""
import itertools
import os
import random
import shutil

from .common import BIN, RUN

VCHILD = os.path.join(BIN, "vchild")
SP = os.path.join(RUN, "sp")


def hx(b):
    if isinstance(b, str):
        b = os.fsencode(b)
    return b.hex()


def vargv(*rest):
    return [hx(VCHILD)] + [hx(r) for r in rest]


KINDS = ["none", "pipe", "file", "rc", "merge"]


def stream_spec(kind, tag):
    if kind in ("file", "rc", "dup"):
        return "%s:%s" % (kind, tag)
    return kind


def fam_wiring(seed, big):
    """C05: all 5x5x5 redirection triples, sharing patterns, repeated spawns, spawns from short-lived threads"""
    rng = random.Random(seed * 31 + 5)
    out = []
    for (a, b, c) in itertools.product(KINDS, KINDS, KINDS):
        sc = {"id": "w-%s-%s-%s" % (a, b, c), "class": "wiring", "argv": vargv(),
              "stdin": stream_spec(a, "i"), "stdout": stream_spec(b, "o"), "stderr": stream_spec(c, "e")}
        if a == "merge" or (b == "merge" and c == "merge"):
            sc["class"] = "invalid"
        r = rng.random()
        if big or r < 0.25:
            sc2 = dict(sc, id=sc["id"] + "-rep", repeat=rng.choice([2, 3]))
            out.append(sc2)
        if big or r > 0.75 or "merge" in (b, c):
            sc3 = dict(sc, id=sc["id"] + "-thr", thread=True, repeat=rng.choice([1, 2]))
            out.append(sc3)
        out.append(sc)
    # the parent re-points its own stdout / stderr between two launches from the same thread
    for (which, b, c) in ((1, "none", "merge"), (2, "merge", "none"), (1, "none", "none"), (2, "none", "none"),
                          (1, "none", "pipe"), (2, "pipe", "merge")):
        for thr in (False, True):
            out.append({"id": "w-repoint%d-%s-%s%s" % (which, b, c, "-thr" if thr else ""), "class": "wiring-repoint",
                        "argv": vargv(), "stdin": "none", "stdout": b, "stderr": c, "repeat": 3, "repoint": which,
                        "thread": thr})
    # the parent runs with standard descriptors closed: the files it opens and the pipes the library creates land on
    # the numbers 0-2 (already "in place", or in the way of another stream)
    j = 0
    for closed, triples in (([0], [("pipe", "none", "none"), ("file:a", "none", "none"), ("rc:S", "none", "none"),
                                   ("pipe", "pipe", "pipe"), ("pipe", "file:b", "merge"), ("file:a", "pipe", "none"),
                                   # (a merge onto an INHERITED stream while another stream's end sits on / moves over 0)
                                   ("pipe", "none", "merge"), ("pipe", "merge", "none"), ("file:a", "none", "merge"),
                                   ("rc:S", "merge", "none"), ("dup:S", "none", "merge")]),
                            ([1], [("none", "pipe", "none"), ("none", "file:a", "none"), ("none", "pipe", "merge"),
                                   ("pipe", "pipe", "pipe"), ("none", "rc:S", "rc:S")]),
                            ([2], [("none", "none", "pipe"), ("none", "none", "file:a"), ("none", "pipe", "pipe"),
                                   ("pipe", "none", "pipe"), ("file:a", "none", "file:b")]),
                            ([0, 1, 2], [("pipe", "pipe", "pipe"), ("file:a", "file:b", "file:c"), ("pipe", "file:b", "merge"),
                                         ("file:a", "pipe", "pipe"), ("rc:S", "pipe", "merge")])):
        for (a, b, c) in triples:
            out.append({"id": "w-closed%d" % j, "class": "wiring-closed-std", "argv": vargv(), "stdin": a, "stdout": b,
                        "stderr": c, "closed_std": closed, "repeat": 1})
            j += 1
    # a stream that is not configured and is CLOSED in the parent stays closed in the child, whatever else the launch has to
    # prepare (a working directory, an environment, pipes for the other streams)
    for closed, (a, b, c) in (([0], ("none", "pipe", "none")), ([0], ("none", "none", "none")), ([2], ("pipe", "pipe", "none")),
                              ([1], ("pipe", "none", "pipe")), ([0, 1], ("none", "none", "pipe"))):
        for extra in ({"cwd": hx(SP)}, {"cwd": hx("/"), "env": [[hx("K"), hx("v")]]}, {}):
            out.append(dict({"id": "w-stayclosed%d" % j, "class": "wiring-closed-stays-closed", "argv": vargv(), "stdin": a,
                             "stdout": b, "stderr": c, "closed_std": closed, "repeat": 1}, **extra))
            j += 1
    # the parent's own stdout / stderr carries the close-on-exec flag, and a stream is merged onto it: the child gets both
    # streams, on that one open file
    for cx, (b, c) in (([1], ("none", "merge")), ([2], ("merge", "none")), ([1, 2], ("none", "merge")), ([1, 2], ("merge", "none"))):
        for a in ("none", "pipe"):
            out.append({"id": "w-stdcx%d" % j, "class": "wiring-std-cloexec", "argv": vargv(), "stdin": a, "stdout": b,
                        "stderr": c, "std_cloexec": cx, "repeat": 2})
            j += 1
    # one file shared by several streams
    shared = [("none", "rc:S", "rc:S"), ("rc:S", "rc:S", "rc:S"), ("none", "dup:S", "dup:S"), ("dup:S", "pipe", "dup:S"),
              ("rc:S", "merge", "rc:S"), ("none", "rc:S", "merge"), ("none", "merge", "dup:S"), ("file:a", "file:a", "merge"),
              ("pipe", "rc:S", "rc:S"), ("rc:S", "pipe", "merge")]
    for i, (a, b, c) in enumerate(shared):
        for thr in (False, True):
            out.append({"id": "w-shared%d%s" % (i, "-thr" if thr else ""), "class": "wiring", "argv": vargv(),
                        "stdin": a, "stdout": b, "stderr": c, "thread": thr, "repeat": 2})
    return out


def fam_argv(seed, big):
    """C06: argv / executable override / environment / cwd / identity; NUL rejected"""
    rng = random.Random(seed * 37 + 6)
    out = []
    os.makedirs(os.path.join(SP, "cwd dir"), exist_ok=True)
    os.chmod(os.path.join(SP, "cwd dir"), 0o777)
    specials = [b"", b" ", b"  two  words ", b"'", b'"', b"a'b\"c", b"\\", b"$HOME", b"*", b"\n", b"\t", b"\xff\xfe",
                b"\xc3\x28", "žluťoučký".encode(), b"-", b"--", b"a=b", b"x" * 300]
    if big:
        specials += [b"y" * 40_000, bytes(range(1, 256))]
    i = 0
    # every special as a single argument, and all together
    for s in specials:
        out.append({"id": "a-one%d" % i, "class": "argv", "argv": vargv(s)})
        i += 1
    out.append({"id": "a-all", "class": "argv", "argv": vargv(*specials[:18])})
    out.append({"id": "a-many", "class": "argv", "argv": vargv(*[("arg%d" % k).encode() for k in range(300 if big else 60)])})
    # argv[0] differs from the executable
    for a0 in (b"fancy-name", b"", b"with space", b"\xff", b"/no/such/path"):
        out.append({"id": "a-exe%d" % i, "class": "argv", "argv": [hx(a0), hx("x")], "exe": hx(VCHILD)})
        i += 1
    # random argument vectors
    for _ in range(60 if big else 15):
        n = rng.randint(0, 6)
        args = [bytes(rng.choice([rng.randint(1, 255), 32, 39, 34]) for _ in range(rng.randint(0, 12))) for _ in range(n)]
        out.append({"id": "a-rnd%d" % i, "class": "argv", "argv": vargv(*args)})
        i += 1
    # environment lists: duplicates in every position, empty values, '=' in values, non-UTF-8
    keys = [b"A", b"B", b"LONGER_NAME"]
    vals = [b"1", b"2", b"", b"x=y", b"\xff", b"sp ace"]
    envs = [[], [(b"A", b"1")], [(b"A", b"1"), (b"A", b"2")], [(b"A", b"1"), (b"B", b"2"), (b"A", b"3")],
            [(b"B", b"1"), (b"A", b"2"), (b"B", b"3"), (b"A", b"4")], [(b"A", b""), (b"A", b"")]]
    for _ in range(40 if big else 12):
        envs.append([(rng.choice(keys), rng.choice(vals)) for _ in range(rng.randint(0, 6))])
    if big:
        envs.append([(("K%d" % k).encode(), ("v%d" % (k % 7)).encode()) for k in range(300)] + [(b"K5", b"last")])
    for e in envs:
        out.append({"id": "a-env%d" % i, "class": "env", "argv": vargv("e"), "env": [[hx(k), hx(v)] for k, v in e]})
        i += 1
    out.append({"id": "a-envnone", "class": "env", "argv": vargv("inherit")})
    # the parent was itself started with an unusual environment block: with `env` unspecified the child gets exactly that
    out.append({"id": "a-envraw", "class": "env", "argv": vargv("raw"),
                "raw_environ": [hx("PLAIN=1"), hx("DUP=first"), hx("NOEQ"), hx("DUP=second"), hx(b"BYTES=\xff\xfe"), hx("EMPTY="),
                                hx("=oddname"), hx("PATH=/usr/bin:/bin")]})
    # names differing only in case are different variables (each keeps its own last value)
    out.append({"id": "a-envcase", "class": "env", "argv": vargv("case"),
                "env": [[hx("k"), hx("1")], [hx("K"), hx("2")], [hx("k"), hx("3")], [hx("Path"), hx("p")], [hx("PATH"), hx("/usr/bin")],
                        [hx("http_proxy"), hx("l")], [hx("HTTP_PROXY"), hx("u")]]})
    # cwd
    for d in (SP, os.path.join(SP, "cwd dir"), "/"):
        out.append({"id": "a-cwd%d" % i, "class": "cwd", "argv": vargv(), "cwd": hx(d)})
        i += 1
    # identity: all combinations (the sandbox runs as root; the monitors also say what a non-root run must see).
    # The unprivileged child must be able to reach the reporting program and its report directory: when this tree
    # lives under a directory other users cannot traverse (e.g. a snapshot under /root) only the root cases run.
    def reachable(path):
        p = os.path.abspath(path)
        while p != "/":
            if not os.stat(p).st_mode & 0o001:
                return False
            p = os.path.dirname(p)
        return True
    ids_ok = os.geteuid() == 0 and reachable(VCHILD) and reachable(SP)
    for (u, g, pg) in itertools.product([None, 12345] if ids_ok else [None], [None, 23456] if ids_ok else [None], [False, True]):
        sc = {"id": "a-id%d" % i, "class": "identity", "argv": vargv(), "setpgid": pg}
        if u is not None:
            sc["setuid"] = u
        if g is not None:
            sc["setgid"] = g
        out.append(sc)
        i += 1
    # the configuration used as a template: what is launched is a clone (PopenConfig::try_clone) and must be started
    # exactly like the original -- every option set at once, and the identity cases again
    tmpl = {"argv": vargv("one", "two"), "exe": hx(VCHILD), "env": [[hx("K"), hx("1")], [hx("K"), hx("2")], [hx("Z"), hx("")]],
            "cwd": hx(os.path.join(SP, "cwd dir")), "setpgid": True, "stdin": "pipe", "stdout": "file:o", "stderr": "merge"}
    out.append(dict(tmpl, id="a-clone%d" % i, **{"class": "argv-clone", "clone_cfg": True}))
    i += 1
    if ids_ok:
        out.append(dict(tmpl, id="a-clone%d" % i, setuid=12345, setgid=23456, **{"class": "identity-clone", "clone_cfg": True}))
        i += 1
    for (u, g, pg) in itertools.product([None, 12345] if ids_ok else [None], [None, 23456] if ids_ok else [None], [False, True]):
        sc = {"id": "a-idclone%d" % i, "class": "identity-clone", "argv": vargv(), "setpgid": pg, "clone_cfg": True}
        if u is not None:
            sc["setuid"] = u
        if g is not None:
            sc["setgid"] = g
        out.append(sc)
        i += 1
    # the parent's real ids differ from its effective ones (a set-user-ID program, a daemon after setresuid(user, 0, 0)):
    # the requested ids -- equal to the real ones or not -- become the child's real, effective and saved ids
    if ids_ok:
        for (u, g) in ((12345, 23456), (12345, None), (None, 23456), (12346, 23457), (None, None)):
            for clone in (False, True):
                sc = {"id": "a-idreal%d" % i, "class": "identity-real-differs", "argv": vargv(), "setpgid": False,
                      "parent_ids": {"uid": [12345, 0, 0], "gid": [23456, 0, 0]}}
                if clone:
                    sc["clone_cfg"] = True
                if u is not None:
                    sc["setuid"] = u
                if g is not None:
                    sc["setgid"] = g
                out.append(sc)
                i += 1
    # names and values that are not valid UTF-8 (legal on Unix) reach the child byte for byte
    for env in ([[hx(b"N\xff"), hx(b"v\xfe\xff caf\xe9")], [hx("PLAIN"), hx(b"\xe9")]], [[hx(b"\xe9"), hx(b"")], [hx("K"), hx(b"a\xffb")]]):
        for clone in (False, True):
            sc = {"id": "a-envbytes%d" % i, "class": "argv-env-bytes", "argv": vargv("x"), "env": env}
            if clone:
                sc["clone_cfg"] = True
            out.append(sc)
            i += 1
    # a working directory only the parent may enter (0700, owned by root) together with an unprivileged identity: the
    # directory is entered before the identity is given up
    if ids_ok:
        priv = os.path.join(SP, "private-cwd")
        os.makedirs(priv, exist_ok=True)
        os.chmod(priv, 0o700)
        for (u, g, pg) in ((12345, 23456, False), (12345, None, True), (None, 23456, False)):
            sc = {"id": "a-idcwd%d" % i, "class": "identity-private-cwd", "argv": vargv(), "setpgid": pg, "cwd": hx(priv)}
            if u is not None:
                sc["setuid"] = u
            if g is not None:
                sc["setgid"] = g
            out.append(sc)
            i += 1
    # NUL anywhere: rejected, nothing started
    nul = [
        {"argv": vargv(b"a\0b")}, {"argv": [hx(VCHILD + "\0x")]}, {"argv": vargv(b"ok", b"\0")},
        {"argv": vargv(), "env": [[hx("A\0"), hx("1")]]}, {"argv": vargv(), "env": [[hx("A"), hx("1\0 2")]]},
        {"argv": vargv(), "exe": hx(VCHILD + "\0")},
        {"argv": vargv(), "cwd": hx(SP + "\0x")}, {"argv": vargv(), "cwd": hx("\0")},
        {"argv": vargv(), "cwd": hx(SP + "\0"), "stdin": "pipe", "stdout": "pipe", "stderr": "merge", "detached": True},
    ]
    for n in nul:
        out.append(dict(n, id="a-nul%d" % i, **{"class": "nul", "nul": True, "expect_start": False}))
        i += 1
    return out


# "any errno": besides the usual ones, values that do not fit one byte / have a zero low byte (kernel-internal
# codes such as ENOTSUPP=524, ERESTARTSYS=512 do leak out of some file systems and drivers)
WIDE = [255, 256, 512, 524, 4095, 65538]
ERRNOS = {"pipe": [24, 23], "fcntl": [9, 24], "fork": [11, 12], "chdir": [13, 2, 20] + WIDE, "dup2": [9, 24, 4, 256],
          "sigmask": [22], "setuid": [1, 11, 512], "setgid": [1, 524], "setpgid": [1, 13, 3, 256],
          "execve": [13, 2, 8, 7, 12, 26] + WIDE,
          # the parent's read of the launch-status channel: interrupted by a signal handler, or failing for good
          "read": [4, 5], "signal": [22]}


def fam_faults(seed, big):
    """C07: every injection point of a launch x errno sample x stream configuration x detached; natural failures"""
    rng = random.Random(seed * 41 + 7)
    out = []
    cfgs = [("none", "none", "none"), ("pipe", "pipe", "pipe"), ("file:i", "pipe", "merge"), ("pipe", "rc:S", "rc:S"),
            ("none", "pipe", "none")]
    if not big:
        cfgs = cfgs[:3]
    i = 0
    for (a, b, c) in cfgs:
        npipes = 1 + sum(1 for x in (a, b, c) if x == "pipe")
        nfcntl = 4 + 2 * (npipes - 1)
        points = [("pipe", k, 0) for k in range(1, npipes + 1)] + [("fcntl", k, 0) for k in range(1, nfcntl + 1)] + \
                 [("fork", 1, 0), ("chdir", 1, 1), ("setuid", 1, 1), ("setgid", 1, 1),
                  ("setpgid", 1, 1), ("execve", 1, 1), ("read", 1, 0), ("signal", 1, 1)]
        ndup = sum(1 for x in (a, b, c) if x != "none")
        points += [("dup2", k, 1) for k in range(1, ndup + 1)]
        for (kind, nth, side) in points:
            ers = ERRNOS[kind] if big else ERRNOS[kind][:1] + ([rng.choice(ERRNOS[kind])] if len(ERRNOS[kind]) > 1 else []) \
                + ([rng.choice(WIDE)] if side == 1 and kind in ("chdir", "execve") else []) \
                + ([e for e in ERRNOS[kind] if e >= 255][:1])
            for er in sorted(set(ers)):
                for det in (False, True):
                    if not big and det and rng.random() < 0.4 and kind not in ("execve", "fork"):
                        continue
                    sc = {"id": "f%d-%s%d-e%d%s" % (i, kind, nth, er, "-det" if det else ""), "class": "fault",
                          "argv": vargv(), "stdin": a, "stdout": b, "stderr": c, "detached": det,
                          "cwd": hx(SP), "setuid": 0, "setgid": 0, "setpgid": True,
                          "fault": {"kind": kind, "nth": nth, "side": side, "errno": er}}
                    if det and side == 1:
                        sc["class"] = "fault-child-detached"
                    out.append(sc)
                    i += 1
    # the parent runs with standard descriptors closed: the launch-status pipe is created on -- and must be moved away
    # from -- the numbers where the child's streams are installed; a child-side failure must still be reported
    for closed in ([2], [0, 2], [1, 2], [0, 1], [0, 1, 2]):
        for (a, b, c) in (("pipe", "pipe", "pipe"), ("none", "none", "pipe"), ("none", "pipe", "merge"), ("file:i", "file:o", "file:e")):
            if any(x == "none" and k in closed for k, x in enumerate((a, b, c))):
                continue
            for (kind, er) in (("execve", 2), ("chdir", 13)):
                out.append({"id": "f%d-closed-%s" % (i, kind), "class": "fault-closed-std", "argv": vargv(), "stdin": a,
                            "stdout": b, "stderr": c, "closed_std": closed, "cwd": hx(SP),
                            "fault": {"kind": kind, "nth": 1, "side": 1, "errno": er}})
                i += 1
            # (the table is full when a fresh pipe end is to be moved above 2: every fcntl of the attempt in turn)
            for nth in (1, 2, 3, 4, 5, 6):
                out.append({"id": "f%d-closed-fcntl%d" % (i, nth), "class": "fault-closed-std", "argv": vargv(), "stdin": a,
                            "stdout": b, "stderr": c, "closed_std": closed,
                            "fault": {"kind": "fcntl", "nth": nth, "side": 0, "errno": 24}})
                i += 1
    # the child takes its time (1.6 s) before the step that fails: create() still waits for the verdict
    for (kind, er) in (("execve", 2), ("chdir", 13)):
        for det in (False, True):
            out.append({"id": "f%d-slow-%s%s" % (i, kind, "-det" if det else ""), "class": "fault-child-detached" if det else "fault",
                        "argv": vargv(), "stdin": "pipe", "stdout": "pipe", "stderr": "none", "detached": det, "cwd": hx(SP),
                        "fault": {"kind": kind, "nth": 1, "side": 1, "errno": er, "delay_us": 1600000}})
            i += 1
    # the parent is held up right after fork(): the child has long exec'ed when the parent goes on
    for (a, b, c) in (("none", "none", "none"), ("pipe", "pipe", "pipe")):
        for extra in ({"setpgid": True}, {"setpgid": True, "cwd": hx(SP)}, {}, {"detached": True, "setpgid": True}):
            out.append(dict({"id": "f%d-parent-late" % i, "class": "parent-late", "argv": vargv(), "stdin": a, "stdout": b,
                             "stderr": c, "parent_delay_us": 60000}, **extra))
            i += 1
    # natural failures
    noexec = os.path.join(SP, "noexec")
    with open(noexec, "w") as f:
        f.write("#!/bin/sh\n")
    os.chmod(noexec, 0o644)
    garbage = os.path.join(SP, "garbage")
    with open(garbage, "wb") as f:
        f.write(b"\x01\x02\x03 not an executable\n")
    os.chmod(garbage, 0o755)
    nat = [
        ("missing", {"argv": [hx("/no/such/program")]}),
        ("missing-rel", {"argv": [hx("no-such-command-xyz")]}),
        ("noexec", {"argv": [hx(noexec)]}),
        ("dir", {"argv": [hx(SP)]}),
        ("garbage", {"argv": [hx(garbage)]}),
        ("badcwd", {"argv": vargv(), "cwd": hx("/no/such/dir")}),
        ("cwd-notdir", {"argv": vargv(), "cwd": hx(noexec)}),
        ("bad-exe", {"argv": vargv(), "exe": hx("/no/such/exe")}),
    ]
    for (nm, extra) in nat:
        for det in (False, True):
            for (a, b, c) in cfgs[:3]:
                sc = dict(extra, id="n%d-%s%s" % (i, nm, "-det" if det else ""), stdin=a, stdout=b, stderr=c,
                          detached=det, expect_start=False)
                sc["class"] = "natural-fail-detached" if det else "natural-fail"
                out.append(sc)
                i += 1
    # and the success direction under the same configurations
    for (a, b, c) in cfgs:
        for det in (False, True):
            out.append({"id": "ok%d" % i, "class": "ok", "argv": vargv(), "stdin": a, "stdout": b, "stderr": c,
                        "detached": det, "cwd": hx(SP), "setpgid": True})
            i += 1
    return out


def fam_leak(seed, big):
    """C08: spawns while earlier Popens (and all their pipe ends) stay alive, from threads, repeated"""
    rng = random.Random(seed * 43 + 8)
    out = []
    i = 0
    for earlier in (0, 1, 2, 3):
        for (a, b, c) in [("pipe", "pipe", "pipe"), ("none", "pipe", "merge"), ("pipe", "none", "none"),
                          ("file:i", "file:o", "pipe"), ("none", "none", "none"), ("pipe", "merge", "pipe")]:
            for thr in (False, True):
                if not big and thr and rng.random() < 0.5:
                    continue
                out.append({"id": "l%d" % i, "class": "leak", "argv": vargv(), "stdin": a, "stdout": b, "stderr": c,
                            "earlier": earlier, "thread": thr, "repeat": rng.choice([1, 2, 3])})
                i += 1
    # a hand-made pipeline: the reading end of a living Popen's stdout pipe is passed as the next command's stdin, from a
    # configuration of which a clone (a template kept for later) is alive during the launch
    for (b, c) in (("pipe", "none"), ("none", "none"), ("pipe", "merge")):
        for keep in (False, True):
            out.append({"id": "l%d" % i, "class": "leak-clone-kept" if keep else "leak-handmade-pipeline", "argv": vargv(),
                        "stdin": "file:@earlier", "stdout": b, "stderr": c, "earlier": 1, "clone_keep": keep})
            i += 1
    for (a, b, c) in (("file:i", "file:o", "none"), ("dup:S", "pipe", "dup:S")):
        out.append({"id": "l%d" % i, "class": "leak-clone-kept", "argv": vargv(), "stdin": a, "stdout": b, "stderr": c,
                    "earlier": 1, "clone_keep": True})
        i += 1
    # the parent's own stdout / stderr IS the writing end of a living Popen's stdin pipe (it logs through a child: a pager,
    # a logger): commands that inherit or merge onto that stream get it as their stream -- and nowhere else
    for which in (1, 2):
        for (b, c) in (("merge", "none"), ("none", "merge"), ("none", "none"), ("pipe", "merge")):
            out.append({"id": "l%d" % i, "class": "leak-parent-logs-through-child", "argv": vargv(), "stdin": "none",
                        "stdout": b, "stderr": c, "earlier": 1, "repeat": 3, "repoint": which, "repoint_earlier": True})
            i += 1
            # (on a thread of its own, and from its very first launch on: whatever the library keeps per thread about
            # the standard streams is made while the stream is that pipe)
            out.append({"id": "l%d" % i, "class": "leak-parent-logs-through-child", "argv": vargv(), "stdin": "none",
                        "stdout": b, "stderr": c, "earlier": 1, "repeat": 3, "repoint": which, "repoint_earlier": True,
                        "repoint_from": 0, "thread": True})
            i += 1
    # the same with standard descriptors of the parent closed: pipe ends of the library (of this launch and of the
    # earlier, still living Popens) are created on -- and moved away from -- the numbers 0-2
    for closed in ([0], [0, 1], [0, 1, 2]):
        for earlier in (0, 1, 2):
            for (a, b, c) in [("pipe", "pipe", "pipe"), ("pipe", "none", "none"), ("none", "pipe", "merge")]:
                if any(x == "none" and k in closed for k, x in enumerate((a, b, c))):
                    continue  # (an inherited stream that is closed: nothing to judge)
                out.append({"id": "l%d" % i, "class": "leak-closed-std", "argv": vargv(), "stdin": a, "stdout": b, "stderr": c,
                            "earlier": earlier, "closed_std": closed, "repeat": 2})
                i += 1
    return out


def fam_eofrace(seed, big):
    """C08: end-of-file reaches a living command as soon as the parent closes its end, while another thread is in the
    middle of a launch -- one that succeeds, or fails in one of the ways a launch can fail"""
    out = []
    busy = os.path.join(SP, "busy-script")
    with open(busy, "w") as f:
        f.write("#!/bin/sh\nexit 0\n")
    os.chmod(busy, 0o755)
    noexec = os.path.join(SP, "noexec")
    with open(noexec, "w") as f:
        f.write("#!/bin/sh\n")
    os.chmod(noexec, 0o644)
    garbage = os.path.join(SP, "garbage")
    with open(garbage, "wb") as f:
        f.write(b"\x01\x02\x03 not an executable\n")
    os.chmod(garbage, 0o755)
    menu = [("ok", vargv("@script", "x0"), None), ("enoent", [hx("/no/such/program")], None),
            ("etxtbsy", [hx(busy)], hx(busy)), ("eacces", [hx(noexec)], None), ("enoexec", [hx(garbage)], None),
            ("enotdir", [hx(VCHILD + "/x")], None)]
    i = 0
    for name, argv, hold in menu:
        for delay in ((0, 300, 5000) if big else (300, 5000)):
            for rep in (1, 3):
                sc = {"id": "er%d-%s" % (i, name), "class": "eof-race", "argv": argv, "delay_us": delay, "repeat": rep}
                if hold:
                    sc["hold_write"] = hold
                out.append(sc)
                i += 1
    return out


def fam_signals(seed, big):
    """C18: every blockable signal alone, random subsets, parent SIGPIPE ignored (Rust default) or default"""
    rng = random.Random(seed * 47 + 18)
    out = []
    i = 0
    blockable = [s for s in range(1, 65) if s not in (9, 19)]
    masks = [[]] + [[s] for s in blockable] + [blockable]
    for _ in range(64 if big else 16):
        masks.append(sorted(rng.sample(blockable, rng.randint(2, 20))))
    for m in masks:
        for sp in ("ign", "dfl"):
            if not big and sp == "dfl" and len(m) == 1 and rng.random() < 0.7:
                continue
            out.append({"id": "s%d" % i, "class": "signals", "argv": vargv(), "mask": m, "sigpipe": sp,
                        "stdout": rng.choice(["none", "pipe"]), "thread": rng.random() < 0.3})
            i += 1
    return out


PATH_KINDS = ["ok", "missing", "noexec", "dir", "garbage"]


class PathMaker:
    """builds one directory tree + launch scenario per PATH shape (mk); the scenarios collect in .out"""

    def __init__(self, sub, prefix="p"):
        self.root = os.path.join(SP, sub)
        shutil.rmtree(self.root, ignore_errors=True)
        os.makedirs(self.root)
        self.out = []
        self.n = [0]
        self.prefix = prefix

    def mk(self, entries, cmd, extra=None, slash=False):
        """entries: list of kind | "" (empty PATH entry) | ("dup", j) | "unreadable" | "long" """
        root, out, n = self.root, self.out, self.n
        i = n[0]
        n[0] += 1
        base = os.path.join(root, "p%d" % i)
        os.makedirs(base)
        dirs, kinds = [], []
        for j, k in enumerate(entries):
            if k == "":
                dirs.append("")
                kinds.append("empty")
                continue
            if isinstance(k, tuple):
                dirs.append(dirs[k[1]])
                kinds.append(kinds[k[1]])
                continue
            name = "d%d" % j
            if k.startswith("nonutf8-"):
                name = "caf\udce9-%d" % j   # the byte 0xE9 alone: not UTF-8 (surrogate-escaped for the file system)
                k = k[8:]
            if k.startswith("long-"):
                # longer than std's 384-byte on-stack buffer for C strings
                name = os.path.join("L" * 200 + str(j), "M" * 230)
                k = k[5:]
            if k.startswith("toolong-"):
                # an entry so long that <entry>/<cmd> exceeds PATH_MAX: it names nothing (ENAMETOOLONG) and is skipped.
                # Cut off after T bytes, however, the candidate (toolong-file@T) or the entry itself (toolong-dir@T)
                # would name a program that must not run.
                what, T = k[8:].split("@")
                T = int(T)
                d = os.path.join(base, name)
                os.makedirs(d)
                if what == "file":
                    tail = "/decoy%d" % T
                else:
                    tail = "/ddir%d" % T
                fill = T - len(os.fsencode(d)) - len(tail)
                assert fill >= 0
                pfx = d + "/." * (fill // 2) + "/" * (fill % 2) + tail
                assert len(os.fsencode(pfx)) == T
                if what == "file":
                    os.link(VCHILD, os.path.join(d, tail[1:]))
                    entry = pfx + "/" + "j" * 200
                else:
                    os.makedirs(os.path.join(d, tail[1:]))
                    os.link(VCHILD, os.path.join(d, tail[1:], cmd))
                    entry = pfx + "j" * 200
                while len(os.fsencode(entry)) + 1 + len(cmd) < 4200:
                    entry += "/" + "j" * 200
                dirs.append(entry)
                kinds.append("toolong")
                continue
            d = os.path.join(base, name)
            os.makedirs(d)
            tgt = os.path.join(d, cmd)
            if k == "ok":
                os.link(VCHILD, tgt)
            elif k == "noexec":
                shutil.copy(VCHILD, tgt)
                os.chmod(tgt, 0o644)
            elif k == "dir":
                os.makedirs(tgt)
            elif k == "garbage":
                with open(tgt, "wb") as f:
                    f.write(b"\x7fNOT-ELF garbage")
                os.chmod(tgt, 0o755)
            elif k == "unreadable":
                os.link(VCHILD, tgt)
                os.chmod(d, 0o000)
                k = "ok"  # root searches through mode-000 directories; the monitor follows the kernel
            dirs.append(d)
            kinds.append(k)
        sc = {"id": "%s%d" % (self.prefix, i), "class": "path", "argv": [hx(cmd), hx("arg")],
              "path": hx(":".join(dirs)), "path_entries": [[hx(d), k] for d, k in zip(dirs, kinds)], "cmd": hx(cmd),
              "has_path": True}
        if all(d == "" for d in dirs):
            sc["class"] = "path-only-empty"
        if extra:
            sc.update(extra)
        out.append(sc)
        return sc


def fam_path(seed, big):
    """C15 (+C17): PATH shapes x candidate kinds; every scenario gets its own directory tree"""
    rng = random.Random(seed * 53 + 15)
    maker = PathMaker("path")
    mk, out, root = maker.mk, maker.out, maker.root

    kinds = PATH_KINDS
    for a in kinds:
        mk([a], "cmd1")
    for a, b in itertools.product(kinds, kinds):
        mk([a, b], "cmd2")
    if big:
        for a, b, c in itertools.product(kinds, kinds, kinds):
            mk([a, b, c], "cmd3")
    else:
        for _ in range(25):
            mk([rng.choice(kinds) for _ in range(3)], "cmd3")
    for _ in range(40 if big else 12):
        ents = []
        for j in range(rng.randint(1, 5)):
            r = rng.random()
            if r < 0.2:
                ents.append("")
            elif r < 0.3 and ents and any(e != "" for e in ents):
                ents.append(("dup", rng.choice([x for x, e in enumerate(ents)])))
            elif r < 0.4:
                ents.append("long-" + rng.choice(kinds))
            else:
                ents.append(rng.choice(kinds))
        mk(ents, rng.choice(["c", "x" * 255, "name.with.dots", "cmd4"]))
    # a directory listed twice with another one in between, each holding the program: the first entry wins
    mk(["ok", "ok", ("dup", 0)], "cmd14")
    mk(["missing", "ok", "ok", ("dup", 1)], "cmd14")
    mk(["noexec", "ok", ("dup", 0), "ok"], "cmd14")
    # values consisting only of empty entries
    for pe in ([""], ["", ""], ["", "", ""]):
        mk(pe, "cmd5")
    # empty entries around real ones, longest entry first / last
    mk(["", "ok", ""], "cmd6")
    mk(["long-missing", "ok"], "cmd7")
    mk(["missing", "long-ok"], "cmd7")
    mk(["unreadable"], "cmd8")
    # PATH entries that are not valid UTF-8, before and at the directory where the command is found
    mk(["nonutf8-missing", "ok"], "cmd12")
    mk(["nonutf8-ok"], "cmd12")
    mk(["nonutf8-noexec", "nonutf8-missing", "nonutf8-ok"], "cmd12")
    # entries longer than PATH_MAX name nothing; cut off at a "natural" length they would name a program that must not run
    for T in (4095, 4096, 4094, 1023, 1024, 255, 256, 2047, 2048):
        for what in ("file", "dir"):
            if not big and T not in (4095, 4096, 1024, 255) :
                continue
            mk(["toolong-%s@%d" % (what, T), "ok"], "cmd13")
            mk(["missing", "toolong-%s@%d" % (what, T)], "cmd13")
    mk(["toolong-file@4095", "toolong-dir@4096", "toolong-file@1024", "noexec", "ok"], "cmd13")
    # executable override goes through the same lookup
    mk(["missing", "ok"], "cmd9", extra={"exe_is_cmd": True})
    # the search uses the PARENT's PATH even when the child gets an environment with another PATH
    decoy = os.path.join(root, "decoy")
    os.makedirs(decoy)
    for cmd in ("cmd10", "cmd11"):
        os.link(VCHILD, os.path.join(decoy, cmd))
    mk(["missing", "ok"], "cmd10", extra={"env": [[hx("PATH"), hx(decoy)], [hx("X"), hx("1")]]})
    mk(["missing", "noexec"], "cmd11", extra={"env": [[hx("PATH"), hx(decoy)]]})
    mk(["ok"], "cmd10", extra={"env": [[hx("PATH"), hx("/nonexistent-dir")]]})
    return out


def fam_alloc(seed, big):
    """C17: shapes that stress the pre-fork preparation (long names, long PATH entries last, long cwd, failing exec)"""
    out = []
    deep = SP
    for k in range(8):
        deep = os.path.join(deep, "d" * 60 + str(k))
    os.makedirs(deep, exist_ok=True)
    i = 0
    for cwd in (None, SP, deep):
        for argn in (0, 40):
            for env in (None, 30):
                sc = {"id": "m%d" % i, "class": "alloc" if cwd != deep else "alloc-long-cwd",
                      "argv": vargv(*["a%d" % k for k in range(argn)])}
                if cwd:
                    sc["cwd"] = hx(cwd)
                if env:
                    sc["env"] = [[hx("K%d" % k), hx("v" * k)] for k in range(env)]
                out.append(sc)
                i += 1
                sc2 = dict(sc, id="m%d" % i, argv=[hx("/no/such/prog")] + sc["argv"][1:], expect_start=False)
                out.append(sc2)
                i += 1
    # the program is named by the `executable` override and is longer than argv[0] (what the child is told it is called)
    for k, (exe, ok) in enumerate(((VCHILD, True), ("/no/such/directory/" + "x" * 300 + "/prog", False), (deep + "/missing", False))):
        sc = {"id": "m%d" % i, "class": "alloc-exe-override", "argv": [hx("sh")] + [hx("a%d" % n) for n in range(3)],
              "exe": hx(exe), "expect_start": ok}
        out.append(sc)
        i += 1
        out.append(dict(sc, id="m%d" % i, stdin="pipe", stdout="pipe", stderr="merge", cwd=hx(SP)))
        i += 1
    return out


def fam_path_noslash(seed):
    """C15: names with a slash and empty/unset PATH are used as given, relative to the child's cwd"""
    root = os.path.join(SP, "pathns")
    shutil.rmtree(root, ignore_errors=True)
    out = []
    for i, (have_local, have_decoy) in enumerate([(True, True), (False, True), (True, False)]):
        base = os.path.join(root, "q%d" % i)
        cwd = os.path.join(base, "cwd")
        decoy = os.path.join(base, "decoy")
        os.makedirs(os.path.join(cwd, "sub"))
        os.makedirs(os.path.join(decoy, "sub"))
        if have_local:
            os.link(VCHILD, os.path.join(cwd, "sub", "tool"))
            os.link(VCHILD, os.path.join(cwd, "tool2"))
        if have_decoy:
            os.link(VCHILD, os.path.join(decoy, "sub", "tool"))
            os.link(VCHILD, os.path.join(decoy, "tool2"))
        sc = {"id": "ns%d-slash" % i, "class": "path-slash", "argv": [hx("sub/tool")], "cwd": hx(cwd),
              "path": hx(decoy), "expect_start": have_local}
        if have_local:
            sc["expexe"] = hx(os.path.join(cwd, "sub", "tool"))
        out.append(sc)
        for pv in ("empty", "unset"):
            sc = {"id": "ns%d-%s" % (i, pv), "class": "path-" + pv, "argv": [hx("tool2")], "cwd": hx(cwd),
                  "expect_start": have_local}
            if pv == "empty":
                sc["path"] = ""
            else:
                sc["path_unset"] = True
            if have_local:
                sc["expexe"] = hx(os.path.join(cwd, "tool2"))
            out.append(sc)
        # a PATH of nothing but empty entries names no directory at all: the program in the working directory must not run
        if have_local:
            for pv in (":", "::", ":::::"):
                out.append({"id": "ns%d-onlyempty%d" % (i, len(pv)), "class": "path-only-empty-local", "argv": [hx("tool2"), hx("x")],
                            "cwd": hx(cwd), "path": hx(pv), "expect_start": False})
        # relative PATH entries are relative to the CHILD's working directory (the lookup happens after chdir)
        if have_local:
            for pv, exp in (("sub", os.path.join(cwd, "sub", "tool")), ("nowhere:sub", os.path.join(cwd, "sub", "tool")),
                            (".", None)):
                cmd = "tool" if exp else "tool2"
                out.append({"id": "ns%d-rel-%s" % (i, pv.replace(":", "_").replace(".", "dot")), "class": "path-slash",
                            "argv": [hx(cmd), hx("x")], "cwd": hx(cwd), "path": hx(pv), "expect_start": True,
                            "expexe": hx(exp or os.path.join(cwd, "tool2"))})
        # the program actually started is the `executable` override: IT decides whether PATH is searched, not argv[0]
        if have_local and have_decoy:
            out.append({"id": "ns%d-exe-slash" % i, "class": "path-slash", "argv": [hx("tool2"), hx("x")], "exe": hx("sub/tool"),
                        "cwd": hx(cwd), "path": hx(decoy), "expect_start": True, "expexe": hx(os.path.join(cwd, "sub", "tool"))})
            out.append({"id": "ns%d-exe-abs" % i, "class": "path-slash", "argv": [hx("tool2"), hx("x")],
                        "exe": hx(os.path.join(cwd, "sub", "tool")), "cwd": hx("/"), "path": hx(decoy), "expect_start": True,
                        "expexe": hx(os.path.join(cwd, "sub", "tool"))})
            out.append({"id": "ns%d-exe-bare" % i, "class": "path-slash", "argv": [hx("/nonexistent/display-name"), hx("x")],
                        "exe": hx("tool2"), "cwd": hx(cwd), "path": hx(decoy), "expect_start": True,
                        "expexe": hx(os.path.join(decoy, "tool2"))})
    return out
