"""C19 / C20: ShQuote.tla and WinArgs.tla are model-checked exhaustively by TLC (renderer transcription composed
with the shell / Microsoft parser = identity); the real rendering code (Exec/Pipeline Debug, to_cmdline_lossy;
the Windows assemble_cmdline extracted from the repository's source) is run on exhaustive-small and seeded-random
argument vectors and TLC applies the specification's parser to the ACTUAL output (QuoteTrace.tla)."""
import itertools
import json
import os
import random
import subprocess
import time

from .common import (run_harness, BIN, ToolError, build_harness, finish, load_findings, log, save_replay, tlc_mc,
                     validate_sharded, workdir, write_evidence)

VCHILD = os.path.join(BIN, "vchild")


def cp(s):
    return [ord(c) for c in s]


SH_ALPHA = ["a", "-", " ", "\n", "'", '"', "\\", "*", "$", "=", "é"]
ASCII_META = [chr(c) for c in range(32, 127) if not chr(c).isalnum()]


def sh_cases(seed, big):
    rng = random.Random(seed * 67 + 19)
    out = []
    i = 0
    v = cp(VCHILD)
    # every single ASCII metacharacter alone, doubled, and embedded (checked by the model and by the real sh)
    for m in ASCII_META + ["\t", "\n", "é", "中", "\U0001F600"]:
        for arg in (m, m + m, "a" + m + "b", m + "a", " " + m):
            out.append({"id": "sh%d" % i, "kind": "sh", "sh": True, "stages": [[v, cp(arg)]]})
            i += 1
    # exhaustive over the small alphabet: words up to length 3 (single), pairs up to length 2
    words1 = [""] + ["".join(t) for k in (1, 2, 3) for t in itertools.product(SH_ALPHA, repeat=k)]
    step = 1 if big else 7
    for w in words1[::step]:
        out.append({"id": "sh%d" % i, "kind": "sh", "sh": (i % (5 if big else 9) == 0), "stages": [[v, cp(w)]]})
        i += 1
    words2 = [""] + ["".join(t) for k in (1, 2) for t in itertools.product(SH_ALPHA, repeat=k)]
    pairs = list(itertools.product(words2, words2))
    for (a, b) in pairs[::(3 if big else 41)]:
        out.append({"id": "sh%d" % i, "kind": "sh", "sh": (i % 11 == 0), "stages": [[v, cp(a), cp(b)]]})
        i += 1
    # the command carries environment settings (shown as NAME=value words in front of it), also while the process
    # environment holds a variable that is not valid UTF-8
    for odd in (False, True):
        for env in ([["K", "v"]], [["K", "two words"], ["L", ""]], [["VERIF_X", "it's $HOME *"]], [["K", "a\nb"]]):
            for args in (["plain"], ["a b", "", "don't"], ["$HOME *", "x\ny"]):
                out.append({"id": "sh%d" % i, "kind": "sh", "sh": True, "stages": [[v] + [cp(a) for a in args]], "env": env,
                            "odd_env": odd})
                i += 1
    # the command is shown (logged) while it is still being put together: what is shown later is the command as it is then
    for how in (1, 2):
        for args in (["a", "b c", "d"], ["x", "", "it's", "$y"], ["one"], ["p", "q"]):
            out.append({"id": "sh%d" % i, "kind": "sh", "sh": True, "stages": [[v] + [cp(a) for a in args]], "shown_early": how})
            i += 1
        out.append({"id": "sh%d" % i, "kind": "sh", "stages": [[cp("cat"), cp("a"), cp("b b")], [cp("wc"), cp("-l"), cp("x y"), cp("z")]],
                    "shown_early": how})
        i += 1
    # program names that need quoting, empty program name -- with an argument, and as the whole command
    for prog in ("", "my prog", "it's", "a|b", "x=1", "$HOME", "~", "*", "two\nlines", "/opt/my tools/run"):
        out.append({"id": "sh%d" % i, "kind": "sh", "stages": [[cp(prog), cp("arg")]]})
        i += 1
        out.append({"id": "sh%d" % i, "kind": "sh", "stages": [[cp(prog)]]})
        i += 1
        out.append({"id": "sh%d" % i, "kind": "sh", "stages": [[cp(prog)], [cp("wc")], [cp(prog), cp("x")]]})
        i += 1
    # pipelines of 2..4 stages
    for _ in range(120 if big else 30):
        n = rng.randint(2, 4)
        stages = []
        for _ in range(n):
            stages.append([cp(rng.choice(["cat", "my prog", "x", ""]))] +
                          [cp("".join(rng.choice(SH_ALPHA + ["|", ";", "&"]) for _ in range(rng.randint(0, 4))))
                           for _ in range(rng.randint(0, 3))])
        out.append({"id": "sh%d" % i, "kind": "sh", "stages": stages})
        i += 1
    # long random arguments
    for _ in range(300 if big else 60):
        args = ["".join(rng.choice(SH_ALPHA + ASCII_META + ["\t"]) for _ in range(rng.randint(0, 40)))
                for _ in range(rng.randint(0, 6))]
        out.append({"id": "sh%d" % i, "kind": "sh", "sh": rng.random() < 0.3, "stages": [[v] + [cp(a) for a in args]]})
        i += 1
    return out


WIN_ALPHA = [97, 32, 9, 10, 34, 92, 233]


def win_cases(seed, big):
    rng = random.Random(seed * 71 + 20)
    out = []
    i = 0
    progs = [[97], [97, 32, 98], [67, 58, 92, 97]]
    maxlen = 5 if big else 4
    words = [[]]
    for k in range(1, maxlen + 1):
        words += [list(t) for t in itertools.product(WIN_ALPHA, repeat=k)]
    step = 1 if big else 3
    for w in words[::step]:
        out.append({"id": "w%d" % i, "kind": "win", "argv": [progs[i % 3], w]})
        i += 1
    short = [w for w in words if len(w) <= 2]
    for (a, b) in list(itertools.product(short, short))[::(1 if big else 5)]:
        out.append({"id": "w%d" % i, "kind": "win", "argv": [[97], a, b]})
        i += 1
    for _ in range(3000 if big else 400):
        argv = [[97]] + [[rng.choice(WIN_ALPHA + [92, 92, 34]) for _ in range(rng.randint(0, 40))]
                         for _ in range(rng.randint(0, 5))]
        out.append({"id": "w%d" % i, "kind": "win", "argv": argv})
        i += 1
    # UTF-16 units that only LOOK like the special characters when narrowed to a byte: U+2122 (low byte 0x22, a
    # quote), U+015C and U+215C (0x5C, a backslash), U+0120 (0x20, a blank), U+0109 (0x09, a tab), U+2100 (0x00)
    look = [0x2122, 0x015C, 0x215C, 0x0120, 0x0109, 0x2100, 0x2022]
    for u in look:
        for w in ([u], [32, u], [u, 32], [97, u, 34], [92, u], [u, 92], [32, u, 92], [34, u, 34], [u, u], [32, 92, u, 92]):
            out.append({"id": "w%d" % i, "kind": "win", "argv": [[97], w]})
            i += 1
    for _ in range(600 if big else 120):
        argv = [[97]] + [[rng.choice(WIN_ALPHA + look + [92, 34, 32]) for _ in range(rng.randint(1, 12))]
                         for _ in range(rng.randint(1, 3))]
        out.append({"id": "w%d" % i, "kind": "win", "argv": argv})
        i += 1
    # every argument of up to four units over backslash / quote / letter / blank, no sampling (runs of backslashes that fill
    # the whole stretch before a quote, between two quotes, behind the last one)
    for k in (1, 2, 3, 4):
        for t in itertools.product([92, 34, 97, 32], repeat=k):
            out.append({"id": "w%d" % i, "kind": "win", "argv": [[97], list(t)]})
            i += 1
    # units that are not text at all: unpaired UTF-16 surrogates (legal in Windows strings, e.g. ill-formed file names),
    # alone, reversed pairs, beside the characters that force quoting
    sur = [0xD83D, 0xDC00, 0xDBFF, 0xDFFF]
    for u in sur:
        for w in ([u], [u, 97], [32, u], [u, 34], [92, u, 92], [0xDC00, 0xD83D], [u, u], [97, 32, u, 92]):
            out.append({"id": "w%d" % i, "kind": "win", "argv": [[97], w]})
            i += 1
    out.append({"id": "w%d" % i, "kind": "win", "argv": [[0xD83D], [98]]})
    i += 1
    # NUL anywhere is rejected
    for argv in ([[97], [0]], [[97], [97, 0, 98]], [[0]], [[97], [98], [99, 0]],
                 # ... also behind a character that forces quoting, in a later argument, at the very end
                 [[97], [97, 32, 0, 98]], [[97], [34, 0]], [[97], [32, 0]], [[97], [9, 97, 0]], [[97], [98, 32, 99], [100, 0]],
                 [[97, 32, 0]], [[97], [92, 34, 0, 92]], [[97], [98], [32, 32, 32, 0]]):
        out.append({"id": "w%d" % i, "kind": "win", "argv": argv})
        i += 1
        # ... and what is assembled right after a refusal (on the same thread) is not affected by it
        for follow in ([[97], [97, 97, 97]], [[98, 32, 99]], [[97], [], [34]]):
            out.append({"id": "w%d" % i, "kind": "win", "argv": follow})
            i += 1
    return out


def win_env_cases(seed, big):
    """C06, Windows variant: environment lists with duplicate names in any position and any ASCII case, non-ASCII
    names that must NOT be folded, '=' and odd units in values, empty lists, NUL in a name or a value"""
    rng = random.Random(seed * 2971215073 + 20)
    u = lambda t: [ord(c) for c in t]
    names = [u("a"), u("A"), u("b"), u("ab"), u("Ab"), u("aB"), u("AB"), [233], [201], u("Path"), u("PATH"), u("path"),
             u("x y"), u("n" * 300), [0x0130], [0x0131], u("i"), u("I")]
    values = [[], u("x"), u("="), u("a=b"), u(" "), [0xD800], [0xFFFF, 0x20AC], u("v" * (5000 if big else 800)), u("C:\\dir;D:\\q")]
    out = []
    i = 0
    out.append({"id": "e%d" % i, "kind": "winenv", "env": []})
    i += 1
    for n in names:
        out.append({"id": "e%d" % i, "kind": "winenv", "env": [[n, u("v")]]})
        i += 1
    for _ in range(600 if big else 150):
        k = rng.randint(1, 8)
        pool = rng.sample(names, rng.randint(1, 4))
        env = [[rng.choice(pool), rng.choice(values)] for _ in range(k)]
        out.append({"id": "e%d" % i, "kind": "winenv", "env": env})
        i += 1
    for env in ([[u("a"), [120, 0, 66, 61, 121]]], [[[97, 0], u("v")]], [[u("a"), u("1")], [[0], []]], [[u("a"), [0]], [u("A"), u("2")]],
                [[u("k"), u("v")], [u("K"), [118, 0]]]):
        out.append({"id": "e%d" % i, "kind": "winenv", "env": env})
        i += 1
    return out


def run_cases(cases, tag):
    """run quote_replay on the cases and validate the trace; returns (results, states)"""
    wd = workdir("quote_" + tag)
    cpath = os.path.join(wd, "cases.ndjson")
    with open(cpath, "w") as f:
        for c in cases:
            f.write(json.dumps(c) + "\n")
    tpath = os.path.join(wd, "trace.ndjson")
    r = run_harness([os.path.join(BIN, "quote_replay"), cpath, tpath], 1500)
    if r.returncode != 0:
        log(r.stderr[-2000:])
        raise ToolError("quote_replay failed with status %d (were the Windows functions renamed?)" % r.returncode)
    results, tv_states, _ = validate_sharded_lines(tpath, "quote_" + tag)
    if len(results) != len(cases):
        raise ToolError("validated %d cases but ran %d" % (len(results), len(cases)))
    return results, tv_states


def run(pid, tier, seed, replay=None):
    t0 = time.time()
    build_harness()
    wd = workdir("quote_" + pid)
    mc = []
    if replay is None:
        if pid == "C19":
            cfgs = [("MCShQuote.tla", "MC_ShQuote.cfg")]
            cases = sh_cases(seed, tier == "thorough")
        else:
            cfgs = [("MCWinArgs.tla", "MC_WinArgs_t.cfg" if tier == "thorough" else "MC_WinArgs.cfg")]
            cases = win_cases(seed, tier == "thorough")
        for mod, cfg in cfgs:
            r = tlc_mc(mod, cfg, "%s_%s" % (pid, cfg[:-4]), workers=8, timeout=3000)
            mc.append({k: r[k] for k in ("cfg", "states", "distinct", "ok", "error", "wall_s")})
            log("[mc] %s: %d cases, ok=%s (%.1fs)" % (cfg, r["distinct"], r["ok"], r["wall_s"]))
    else:
        cases = [json.load(open(replay))["scenario"]]
    by_id = {c["id"]: c for c in cases}
    cpath = os.path.join(wd, "cases.ndjson")
    with open(cpath, "w") as f:
        for c in cases:
            f.write(json.dumps(c) + "\n")
    tpath = os.path.join(wd, "trace.ndjson")
    r = run_harness([os.path.join(BIN, "quote_replay"), cpath, tpath], 1500)
    if r.returncode != 0:
        log(r.stderr[-2000:])
        raise ToolError("quote_replay failed with status %d (for C20: were the Windows functions renamed?)" % r.returncode)
    # one event per line: shard on every line
    results, tv_states, blocks = validate_sharded_lines(tpath, "quote_" + pid)
    if len(results) != len(cases):
        raise ToolError("validated %d cases but ran %d" % (len(results), len(cases)))
    findings = [f for f in load_findings() if f["property"] == pid and f["status"] == "known"]
    new, known_hits, seen = [], set(), set()
    for r in results:
        if r["sanity"]:
            raise ToolError("the specification's model of sh disagrees with the installed sh on case %s" % r["id"])
        for v in r["viol"]:
            if not v.startswith(pid + "_"):
                continue
            hit = [f for f in findings if f["signature"] == v]
            if hit:
                known_hits.add(hit[0]["what"])
                continue
            if v in seen:
                continue
            seen.add(v)
            path = save_replay(pid, {"property": pid, "monitor": v, "signature": v, "engine": "quote",
                                     "scenario": by_id[r["id"]]})
            new.append(("%s fired on case %s" % (v, r["id"]), path))
    nontrivial = sum(1 for c in cases if any(len(w) > 0 for st in (c.get("stages") or [c.get("argv")]) for w in
                                            (st if c["kind"] == "win" else [x for x in st])))
    cov = {
        "states": sum(m["distinct"] for m in mc) + tv_states,
        "transitions": sum(m["states"] for m in mc) + tv_states,
        "traces_validated_against_impl": len(results),
        "samples": cases[:3],
        "evaluations": len(results),
        "distinct_nontrivial": len(set(json.dumps(c.get("stages", c.get("argv"))) for c in cases)),
        "rule": "one evaluation = one argument vector rendered by the real code, parsed back by TLC with the "
                "specification's parser; distinct by argument vector",
        "exhaustive": False,
        "model_checking": mc,
    }
    assumptions = [
        "C19: POSIX shell tokenisation as transcribed in spec/ShQuote.tla, cross-checked against the installed sh on a "
        "subset of the cases of every run",
        "C20: the Microsoft C runtime / CommandLineToArgvW rules as transcribed in spec/WinArgs.tla; the Windows "
        "functions are extracted textually from /repo/src/popen.rs and compiled against a UTF-16 shim (cannot run on "
        "Windows here); the program name is a plain file name",
    ]
    write_evidence(pid, tier, seed, cov, assumptions, time.time() - t0, len(new))
    return finish(pid, new, sorted(known_hits))


def validate_sharded_lines(tpath, name):
    from .common import shard_trace, tlc_trace
    from concurrent.futures import ThreadPoolExecutor
    d = workdir("shards_" + name)
    lines = open(tpath).readlines()
    n = max(1, min(12, len(lines)))
    paths = []
    for i in range(n):
        p = os.path.join(d, "shard%d.ndjson" % i)
        with open(p, "w") as f:
            f.writelines(lines[i::n])
        paths.append(p)
    with ThreadPoolExecutor(max_workers=n) as ex:
        res = list(ex.map(lambda ip: tlc_trace("QuoteTrace.tla", "QuoteTrace.cfg", ip[1], "%s_%d" % (name, ip[0])),
                          enumerate(paths)))
    results, states = [], 0
    for p, r in zip(paths, res):
        if not r["accepted"]:
            log(r["out"][-2000:])
            raise ToolError("trace not consumable by QuoteTrace.tla (%s): %s" % (p, r["unmatched"]))
        results.extend(r["results"])
        states += r["states"]
    return results, states, None
