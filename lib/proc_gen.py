"""TLC-generated behaviours of Proc.tla (spec -> implementation): `tlc -simulate` on MCProcGen prints one JSON line
per finished behaviour (environment steps, API calls, the handle's system calls and results, in order); each becomes
a proc_replay scenario whose environment script places every exit / external reap / pid reuse between the real
library's system calls exactly where the model had it, and carries what the model expects the library to do."""
import json
import os
import re
import subprocess

from .common import SPEC, ToolError, log, workdir

MS = 1_000_000
CONFIGS = [
    # (MaxOps, MinOps, Durations, Statuses, MaxNow, Signals)
    (6, 3, "D0138", "St4", 14, "Sig3"),
    (4, 2, "D_wide", "St4", 60, "Sig3"),
]


def generate(seed, num, depth=260):
    wd = workdir("procgen")
    out, seen = [], set()
    for ci, c in enumerate(CONFIGS):
        cfg = os.path.join(SPEC, "MC_pgen_%d_%d.cfg" % (os.getpid(), ci))
        with open(cfg, "w") as f:
            f.write("SPECIFICATION GenSpec\nCONSTANTS\n  MaxOps = %d\n  MinOps = %d\n  Durations <- %s\n  Statuses <- %s\n"
                    "  MaxNow = %d\n  DelayCap = 100\n  Signals <- %s\n  GateSignals = TRUE\n  CheckPid = TRUE\n"
                    "INVARIANT Emit\nCONSTRAINT Bound\nCHECK_DEADLOCK FALSE\n" % c)
        try:
            r = subprocess.run(["tlc", "-workers", "1", "-simulate", "num=%d" % num, "-depth", str(depth), "-seed",
                                str(seed + 31 * ci), "-metadir", os.path.join(wd, "md%d" % ci), "-cleanup",
                                "-noGenerateSpecTE", "-config", os.path.basename(cfg), "MCProcGen.tla"], cwd=SPEC, env=dict(os.environ, JAVA_TOOL_OPTIONS="-Djava.io.tmpdir=" + wd),
                               stdout=subprocess.PIPE, stderr=subprocess.STDOUT, text=True, timeout=600)
        finally:
            os.unlink(cfg)
        if "Parsing or semantic analysis failed" in r.stdout or "ConfigFileException" in r.stdout or \
                "Error:" in r.stdout:
            log(r.stdout[-2000:])
            raise ToolError("TLC could not run the behaviour generator (Proc)")
        for m in re.finditer(r'<<\s*"GEN",\s*"(.*?)"\s*>>', r.stdout, re.S):
            js = json.loads(bytes(" ".join(m.group(1).split()), "utf-8").decode("unicode_escape"))
            key = json.dumps(js, sort_keys=True)
            if key in seen:
                continue
            seen.add(key)
            sc = to_scenario(js, "pgen%d-%d" % (ci, len(out)))
            if sc:
                out.append(sc)
    return out


def to_scenario(js, sid):
    ops, script, exp_sys, exp_res = [], [], [], []
    exit_st = {"k": "exited", "v": 0, "at": None}
    detached = False
    drop = False
    for h in js["hist"]:
        t = h["t"]
        if t == "init":
            detached = h["k"] == "detached"
        elif t == "tick":
            ops.append(["delay", MS])
            script.append("K")
        elif t == "exit":
            exit_st = {"k": h["k"], "v": h["v"], "at": None}
            script.append("X")
        elif t == "xreap":
            script.append("R")
        elif t == "reuse":
            script.append("U")
        elif t == "call":
            script.append("K")
            if h["k"] == "drop":
                drop = True
            elif h["k"] == "wait_timeout":
                ops.append(["wait_timeout", h["v"] * MS])
            elif h["k"] == "send_signal":
                ops.append(["send_signal", h["v"]])
            else:
                ops.append([h["k"]])
        elif t == "sys":
            script.append("S")
            exp_sys.append(h["k"])
        elif t == "ret":
            exp_res.append([h["k"], h["v"]])
    if not drop:
        return None
    return {"id": sid, "exit": exit_st, "ops": ops, "drop": True, "detached": detached, "script": script,
            "expect_sys": exp_sys, "expect_res": exp_res}


def observed(block):
    """(system calls, results) of one recorded history, run-length encoded back-off pairs expanded"""
    sys_, res = [], []
    for ln in block:
        e = json.loads(ln)
        k = e["e"]
        if k == "bk_run":
            sys_ += ["waitpid", "sleep"] * e["n"]
        elif k in ("waitpid", "kill", "sleep"):
            sys_.append(k)
        elif k == "apiret":
            r = e["res"]
            res.append([r["k"], 3 if r["k"] == "err" else r["v"]])
    return sys_, res
