"""C09-C11 (+ the Popen part of C12): Proc.tla model-checked by TLC; a real Popen is driven through API
histories while its child's pid and the clock are virtual (proc_replay), and TLC validates every recorded
execution against ProcTrace.tla, whose monitors decide the verdict."""
import json
import os
import subprocess
import time

from . import proc_scen
from .common import (run_harness, BIN, ToolError, build_harness, finish, load_findings, log, save_replay, tlc_mc,
                     validate_sharded, workdir, write_evidence)

PREFIX = {"C09": "C09_", "C10": "C10_", "C11": "C11_", "C12": "C12_"}


def scenarios(pid, tier, seed):
    big = tier == "thorough"
    if pid == "C09":
        return proc_scen.fam_history(seed, 2500 if big else 400) + proc_scen.fam_timing(seed, 10, False)[:60]
    if pid == "C10":
        return proc_scen.fam_history(seed + 1000, 2500 if big else 400, all_statuses=big) + proc_scen.fam_drop(seed, 0)
    if pid == "C11":
        return proc_scen.fam_timing(seed, 600 if big else 100, big) + proc_scen.fam_history(seed, 300 if big else 60, False)
    if pid == "C12":
        return proc_scen.fam_drop(seed, 0) + proc_scen.fam_history(seed, 300 if big else 80, False)
    raise ToolError("no proc scenarios for " + pid)


def run_traces(pid, tier, seed, replay=None):
    """returns (mc results, scenarios by id, results, tv_states, blocks, note)"""
    wd = workdir("proc_" + pid)
    mc = []
    if replay is None:
        cfg = "MC_Proc_t.cfg" if tier == "thorough" else "MC_Proc_q.cfg"
        r = tlc_mc("MCProc.tla", cfg, "%s_proc" % pid, workers=8)
        mc.append({k: r[k] for k in ("cfg", "states", "distinct", "ok", "error", "wall_s")})
        log("[mc] %s: %d distinct states, ok=%s (%.1fs)" % (cfg, r["distinct"], r["ok"], r["wall_s"]))
        scs = scenarios(pid, tier, seed)
    else:
        scs = [json.load(open(replay))["scenario"]]
    by_id = {}
    scen_path = os.path.join(wd, "scen.ndjson")
    with open(scen_path, "w") as f:
        for s in scs:
            by_id[s["id"]] = s
            f.write(json.dumps(s) + "\n")
    trace_path = os.path.join(wd, "trace.ndjson")
    r = run_harness([os.path.join(BIN, "proc_replay"), scen_path, trace_path], 1500)
    if r.returncode != 0:
        log(r.stderr[-3000:])
        raise ToolError("proc_replay failed with status %d" % r.returncode)
    if "interposed calls seen: 0" in r.stderr:
        raise ToolError("interposition is silent")
    note = r.stderr.strip().splitlines()[-1]
    log("[replay] " + note)
    results, tv_states, blocks = validate_sharded("ProcTrace.tla", "ProcTrace.cfg", trace_path, "proc_" + pid)
    return mc, by_id, results, tv_states, blocks, note


def run(pid, tier, seed, replay=None):
    t0 = time.time()
    build_harness()
    mc, by_id, results, tv_states, blocks, note = run_traces(pid, tier, seed, replay)
    blk = {json.loads(b[0])["id"]: b for b in blocks}
    if len(results) != len(blk):
        raise ToolError("validated %d histories but recorded %d" % (len(results), len(blk)))
    findings = [f for f in load_findings() if f["property"] == pid and f["status"] == "known"]
    new, known_hits, others, seen = [], set(), {}, set()
    nontrivial = set()
    for r in results:
        sc = by_id[r["id"]]
        b = blk[r["id"]]
        if any('"waitpid"' in ln or '"kill"' in ln or '"bk_run"' in ln for ln in b):
            nontrivial.add(hash("".join(b[1:])))
        for v in r["viol"]:
            if not v.startswith(PREFIX[pid]):
                others[v] = others.get(v, 0) + 1
                continue
            sig = v
            hit = [f for f in findings if f["signature"] == sig]
            if hit:
                known_hits.add(hit[0]["what"])
                continue
            if v in seen:
                continue
            seen.add(v)
            path = save_replay(pid, {"property": pid, "monitor": v, "signature": sig, "engine": "proc",
                                     "scenario": sc, "trace": [json.loads(x) for x in b]})
            new.append(("%s fired in history %s" % (v, r["id"]), path))
    samples = [{"scenario": by_id[i], "trace_head": [json.loads(x) for x in blk[i][:14]]} for i in list(blk)[:2]]
    cov = {
        "states": sum(m["distinct"] for m in mc) + tv_states,
        "transitions": sum(m["states"] for m in mc) + tv_states,
        "traces_validated_against_impl": len(results),
        "samples": samples,
        "evaluations": len(results),
        "distinct_nontrivial": len(nontrivial),
        "rule": "one evaluation = one API history executed on a real Popen (virtual child pid + virtual clock) and "
                "validated by TLC against ProcTrace.tla; non-trivial = the handle issued at least one waitpid/kill; "
                "distinct by event sequence",
        "exhaustive": False,
        "model_checking": mc,
        "trace_validation_states": tv_states,
        "monitors_of_other_properties_fired": others,
        "replay_note": note,
    }
    assumptions = [
        "process-table semantics as in spec/ProcEnv.tla (zombie until reaped; ECHILD once reaped by anybody; kill "
        "succeeds on running/zombie/reused pid)",
        "link-time interposition reaches every waitpid/kill/clock_gettime/clock_nanosleep of the library",
        "C11 slack constants: 20 ms for 'still running' lateness, 120 ms after the exit for promptness, at most "
        "20 + d/10ms status checks per wait_timeout(d)",
    ]
    write_evidence(pid, tier, seed, cov, assumptions, time.time() - t0, len(new))
    return finish(pid, new, sorted(known_hits))
