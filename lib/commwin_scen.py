"""Scenario families for the thread-based communicator (the cfg(windows) RawCommunicator of src/communicate.rs,
extracted and run on Linux pipes against the scripted child, real kernel, real threads).

child ops (vchild @pscript): r<N> read exactly N, q<N> one read of at most N, R read to end-of-file, o<N>/e<N> write N
bytes to stdout/stderr, P<N> a forked helper floods stderr with N bytes concurrently, ci/co/ce close, s<ms> sleep, x exit
call: {limit, tlim_us, pause_ms (before the call), hold_us (main thread held this long before each wait)}"""
import random

K = 4096
PIPE = 65536


def sc(i, fam, piped, inp, child, calls, **kw):
    d = {"id": "%s%d" % (fam, i), "piped": piped, "input": inp, "child": child, "calls": calls}
    d.update(kw)
    return d


def fam_deadlock(seed, n_random):
    """C01: every subset of piped streams x child shapes that fill pipes in an order the parent does not expect"""
    rng = random.Random(seed * 7919 + 5)
    out = []
    big = 300_000
    shapes = [
        ["R", "o%d" % big, "e%d" % big, "x"],                       # reads everything first
        ["o%d" % big, "e%d" % big, "R", "x"],                       # writes everything first (stdin fills up)
        ["e%d" % big, "o%d" % big, "x"],                            # never reads its input
        ["e%d" % big, "r100000", "o%d" % big, "R", "e%d" % big, "x"],
        ["co", "e%d" % big, "R", "x"],                              # closes stdout at once
        ["ce", "R", "o%d" % big, "x"],
        ["ci", "o%d" % big, "e%d" % big, "x"],                      # closes stdin at once
        ["r1", "co", "ce", "s50", "x"],                             # closes both outputs, lives on a little
        ["x"],                                                      # exits at once
        ["R", "x"],
    ]
    cat = []
    for _ in range(40):
        cat += ["q%d" % K, "o%d" % K]
    shapes.append(cat + ["R", "x"])                                 # a filter that answers chunk by chunk
    both = []
    for _ in range(30):
        both += ["q8192", "o%d" % 5000, "e%d" % 3000]
    shapes.append(both + ["R", "x"])
    i = 0
    for piped in (["in", "out", "err"], ["in", "out"], ["in", "err"], ["out", "err"], ["in"], ["out"], ["err"], []):
        for sh in shapes:
            for inp in (0, 1, PIPE + 1, 400_000):
                if "in" not in piped and inp:
                    continue
                if inp in (1, PIPE + 1) and sh is not shapes[0] and sh is not shapes[1]:
                    continue
                out.append(sc(i, "wd", piped, inp, sh, [{}], cap=rng.choice([None, K, PIPE])))
                i += 1
    for _ in range(n_random):
        ops = []
        for _ in range(rng.randint(1, 14)):
            r = rng.random()
            n = rng.choice([1, 100, K - 1, K, K + 1, 3 * K, PIPE, PIPE + 1, 200_000])
            if r < 0.3:
                ops.append(rng.choice(["r%d", "q%d"]) % n)
            elif r < 0.6:
                ops.append("o%d" % n)
            elif r < 0.85:
                ops.append("e%d" % n)
            elif r < 0.9:
                ops.append(rng.choice(["ci", "co", "ce"]))
            else:
                ops.append("s%d" % rng.choice([1, 5, 20]))
        ops += rng.choice([["R", "x"], ["x"]])
        piped = rng.choice([["in", "out", "err"], ["in", "out"], ["out", "err"], ["in", "err"]])
        inp = rng.choice([0, 1, K, 100_000, 500_000]) if "in" in piped else 0
        out.append(sc(i, "wd", piped, inp, ops, [{}], cap=rng.choice([None, K, 2 * K, PIPE])))
        i += 1
    return out


def fam_data(seed, n_random):
    """C02: sizes around the 4096-byte chunk and the pipe capacity, both streams interleaved, prompt end-of-file"""
    rng = random.Random(seed * 104729 + 7)
    out = []
    i = 0
    for n in (0, 1, K - 1, K, K + 1, 2 * K, PIPE - 1, PIPE, PIPE + 1, 1_000_000):
        out.append(sc(i, "wx", ["in", "out", "err"], n, ["R", "o%d" % n, "e%d" % max(1, n // 3), "x"], [{}]))
        i += 1
        inter = []
        left = n
        while left > 0:
            k = min(left, rng.choice([1, 7, K, K + 1, 10_000]))
            inter += ["o%d" % k, "e%d" % max(1, k // 2)]
            left -= k
            if len(inter) > 300:
                break
        out.append(sc(i, "wx", ["out", "err"], 0, inter + ["x"], [{}]))
        i += 1
    # end-of-file must not wait for the caller's next read(): the child reads its input only after the first (size
    # limited) read() has returned, and reports how long it then waited for end-of-file
    for inp in (200_000, 70_000):
        out.append(sc(i, "wx", ["in", "out"], inp, ["o1", "s300", "R", "o10", "x"], [{"limit": 1}, {"pause_ms": 1500}],
                      until_eof=True))
        i += 1
    out.append(sc(i, "wx", ["in", "out"], 200_000, ["o1", "s300", "R", "o10", "x"],
                  [{"tlim_us": 100_000}, {"pause_ms": 1500}], until_eof=True))
    i += 1
    # a write error on stdin is reported once; reading goes on afterwards and ends normally
    for ops in (["ci", "o10", "s200", "o10", "x"], ["r10", "ci", "e5000", "s100", "o5000", "x"]):
        out.append(sc(i, "wx", ["in", "out", "err"], 200_000, ops, [{}], until_eof=True, max_errors=3))
        i += 1
    for _ in range(n_random):
        ops = []
        for _ in range(rng.randint(2, 20)):
            n = rng.choice([1, 2, 100, K - 1, K, K + 1, 9000, PIPE + 1])
            ops.append(rng.choice(["o%d", "e%d", "q%d"]) % n)
        out.append(sc(i, "wx", ["in", "out", "err"], rng.choice([0, 5, K + 1, 150_000]), ops + ["R", "x"], [{}],
                      cap=rng.choice([None, K])))
        i += 1
    return out


def fam_limit(seed, n_random):
    """C03: limits 1, chunk +-1, larger than the output; sequences of limits; data on both streams"""
    rng = random.Random(seed * 1299709 + 11)
    out = []
    i = 0
    for lims in ([1], [K - 1], [K], [K + 1], [3], [K + 1, 1, K - 1, 2 * K, 5], [10_000_000], [100, 1, 100_000]):
        for child in (["o20000", "e20000", "x"], ["e9000", "s20", "o9000", "s20", "e1", "o1", "x"],
                      ["o%d" % (K + 1), "s30", "e%d" % (K - 1), "x"]):
            calls = [{"limit": x} for x in lims]
            out.append(sc(i, "wl", ["out", "err"], 0, child, calls, until_eof=True))
            i += 1
    # the rest of the input keeps being delivered by later (limited) reads
    out.append(sc(i, "wl", ["in", "out"], 300_000, ["o5", "R", "o5", "x"], [{"limit": 2}], until_eof=True))
    i += 1
    # empty means end-of-file: a child that pauses (longer than a read takes) is not at end-of-file
    out.append(sc(i, "wl", ["out"], 0, ["o10", "s150", "o10", "s150", "x"], [{"limit": 4}], until_eof=True))
    i += 1
    out.append(sc(i, "wl", ["out", "err"], 0, ["o10", "co", "s200", "e10", "x"], [{"limit": 100}], until_eof=True))
    i += 1
    for _ in range(n_random):
        ops = []
        for _ in range(rng.randint(1, 12)):
            ops.append(rng.choice(["o%d", "e%d"]) % rng.choice([1, 5, K - 1, K, K + 1, 20_000]))
            if rng.random() < 0.2:
                ops.append("s%d" % rng.choice([1, 10, 40]))
        calls = [{"limit": rng.choice([1, 2, K - 1, K, K + 1, 7000, 100_000])} for _ in range(rng.randint(1, 4))]
        out.append(sc(i, "wl", ["out", "err"], 0, ops + ["x"], calls, until_eof=True))
        i += 1
    return out


def fam_time(seed, n_random):
    """C04: silent / slow / continuously writing children, limit 0, resumed reads; real time, generous slack"""
    rng = random.Random(seed * 15485863 + 13)
    out = []
    i = 0
    out.append(sc(i, "wt", ["out"], 0, ["o10", "s300", "o10", "x"], [{"tlim_us": 50_000}], until_eof=True))
    i += 1
    out.append(sc(i, "wt", ["out", "err"], 0, ["s200", "e5", "s200", "o5", "x"], [{"tlim_us": 0}, {"tlim_us": 120_000}],
                  until_eof=True))
    i += 1
    out.append(sc(i, "wt", ["in", "out"], 300_000, ["s150", "r100000", "o70000", "s150", "R", "o5", "x"],
                  [{"tlim_us": 40_000}], until_eof=True))
    i += 1
    # trickle
    out.append(sc(i, "wt", ["out"], 0, sum([["o100", "s20"] for _ in range(12)], []) + ["x"],
                  [{"tlim_us": 30_000, "limit": 150}], until_eof=True))
    i += 1
    # floods: one stream, two streams one after the other, two streams at once; with and without the main thread
    # being held up before it waits (then both readers always have a message waiting)
    flood = 40_000_000
    for child in (["o%d" % flood, "x"], ["P%d" % flood, "o%d" % flood, "x"]):
        for hold in (0, 300):
            for tl in (30_000, 0):
                out.append(sc(i, "wt", ["out", "err"], 0, child, [{"tlim_us": tl, "hold_us": hold}]))
                i += 1
    for _ in range(n_random):
        ops = []
        for _ in range(rng.randint(1, 8)):
            ops.append(rng.choice(["o%d", "e%d"]) % rng.choice([1, 500, K, 30_000]))
            ops.append("s%d" % rng.choice([5, 30, 80, 160]))
        calls = [{"tlim_us": rng.choice([0, 1000, 20_000, 60_000, 200_000]),
                  **({"limit": rng.choice([1, K, 50_000])} if rng.random() < 0.3 else {})}
                 for _ in range(rng.randint(1, 3))]
        out.append(sc(i, "wt", ["out", "err"], 0, ops + ["x"], calls, until_eof=True))
        i += 1
    return out
