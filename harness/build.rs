//! Extracts, by brace matching from the CURRENT text of /repo/src, the Windows-only pure functions
//! (`assemble_cmdline`, `append_quoted`, `format_env_block` of popen.rs) so that they can be
//! compiled and run on Linux against a small UTF-16 shim (src/winshim.rs).
//! If an item cannot be found the generated file says so and the check using it exits 2.
use std::env;
use std::fs;
use std::path::Path;

fn extract_fn(src: &str, name: &str) -> Option<String> {
    let pat = format!("fn {}(", name);
    let start = src.find(&pat)?;
    // back up over attributes / comments directly attached? keep it simple: start at "fn"
    let open = src[start..].find('{')? + start;
    let mut depth = 0usize;
    let bytes = src.as_bytes();
    let mut i = open;
    let mut in_str = false;
    let mut in_chr = false;
    while i < bytes.len() {
        let c = bytes[i] as char;
        if in_str {
            if c == '\\' {
                i += 1;
            } else if c == '"' {
                in_str = false;
            }
        } else if in_chr {
            if c == '\\' {
                i += 1;
            } else if c == '\'' {
                in_chr = false;
            }
        } else if c == '"' {
            in_str = true;
        } else if c == '\'' {
            // char literal (not a lifetime): 'x' or '\x'
            let rest = &src[i + 1..];
            let is_char = rest.starts_with('\\') || rest.chars().nth(1) == Some('\'');
            if is_char {
                in_chr = true;
            }
        } else if c == '/' && i + 1 < bytes.len() && bytes[i + 1] as char == '/' {
            while i < bytes.len() && bytes[i] as char != '\n' {
                i += 1;
            }
        } else if c == '{' {
            depth += 1;
        } else if c == '}' {
            depth -= 1;
            if depth == 0 {
                return Some(src[start..=i].to_string());
            }
        }
        i += 1;
    }
    None
}

fn main() {
    let out = env::var("OUT_DIR").unwrap();
    let src = fs::read_to_string("/repo/src/popen.rs").unwrap_or_default();
    let mut code = String::new();
    let mut ok = true;
    for name in ["assemble_cmdline", "append_quoted", "format_env_block"] {
        match extract_fn(&src, name) {
            Some(f) => {
                code.push_str("pub ");
                code.push_str(&f);
                code.push_str("\n\n");
            }
            None => ok = false,
        }
    }
    // helpers of their own that the extracted functions call: every other `fn name(` defined inside the Windows `mod os`
    // whose name occurs (followed by an opening parenthesis) in what has been extracted so far -- transitively
    if ok {
        let win = src.find("#[cfg(windows)]\nmod os").map(|i| &src[i..]).unwrap_or("");
        let mut done: Vec<String> = vec!["assemble_cmdline".into(), "append_quoted".into(), "format_env_block".into()];
        loop {
            let mut added = false;
            let mut at = 0;
            while let Some(k) = win[at..].find("fn ") {
                let s0 = at + k + 3;
                let name: String = win[s0..].chars().take_while(|c| c.is_alphanumeric() || *c == '_').collect();
                at = s0;
                if name.is_empty() || done.contains(&name) || !win[s0 + name.len()..].starts_with('(') && !win[s0 + name.len()..].starts_with('<') {
                    continue;
                }
                if code.contains(&format!("{}(", name)) {
                    if let Some(f) = extract_fn(win, &name) {
                        code.push_str(&f);
                        code.push_str("\n\n");
                        done.push(name);
                        added = true;
                    }
                }
            }
            if !added {
                break;
            }
        }
    }
    if !ok {
        code = String::new();
    }
    code.push_str(&format!("pub const EXTRACTED: bool = {};\n", ok));
    if !ok {
        code.push_str("pub fn assemble_cmdline(_: Vec<OsString>) -> io::Result<OsString> { unimplemented!() }\n");
        code.push_str("pub fn format_env_block(_: &[(OsString, OsString)]) -> Vec<u16> { unimplemented!() }\n");
    }
    fs::write(Path::new(&out).join("win_extract.rs"), code).unwrap();
    println!("cargo:rerun-if-changed=/repo/src/popen.rs");
    println!("cargo:rerun-if-changed=build.rs");
}
