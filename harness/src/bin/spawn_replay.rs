//! Real-kernel spawn cases: each scenario builds a PopenConfig, calls the real `Popen::create`
//! while every libc call of the library (also inside the forked child) is logged and optionally
//! failed (fault plan), lets the reporting child describe what it sees, and records everything as
//! NDJSON for validation against SpawnTrace.tla.
//!
//! usage: spawn_replay <scenarios.ndjson> <trace-out.ndjson>
use serde_json::{json, Value};
use simk::slog::{self, Fault};
use std::ffi::OsString;
use std::fs::{self, File};
use std::io::{BufRead, BufReader, Seek, SeekFrom, Write};
use std::os::unix::ffi::{OsStrExt, OsStringExt};
use std::os::unix::io::AsRawFd;
use std::panic::{catch_unwind, AssertUnwindSafe};
use std::rc::Rc;
use subprocess::{Popen, PopenConfig, PopenError, Redirection};

simk::define_interposers!();

#[global_allocator]
static ALLOC: slog::CountingAlloc = slog::CountingAlloc;

use simk::rk::*;

fn unhex(s: &str) -> Vec<u8> {
    (0..s.len() / 2).map(|i| u8::from_str_radix(&s[2 * i..2 * i + 2], 16).unwrap()).collect()
}
fn os(s: &str) -> OsString {
    OsString::from_vec(unhex(s))
}

struct Files {
    masters: std::collections::HashMap<String, Rc<File>>,
    next_off: u64,
    opened: Vec<Value>,
    cur_stream: i32,
    /// the reading end of an earlier, still living Popen's stdout pipe ("file:@earlier": a hand-made pipeline)
    earlier_out: Option<File>,
    /// descriptor of an earlier, still living Popen's stdin pipe (its writing end), or -1
    earlier_in_fd: i32,
}
impl Files {
    fn path(name: &str) -> String {
        format!("{}/f_{}", tmpd(), name)
    }
    fn fresh(&mut self, name: &str, write: bool) -> File {
        let p = Files::path(name);
        if !std::path::Path::new(&p).exists() {
            fs::write(&p, vec![b'.'; 4096]).unwrap();
        }
        let mut f = fs::OpenOptions::new().read(!write).write(write).open(&p).unwrap();
        self.next_off += 7;
        f.seek(SeekFrom::Start(self.next_off)).unwrap();
        f
    }
    fn master(&mut self, name: &str, write: bool) -> Rc<File> {
        if !self.masters.contains_key(name) {
            let f = self.fresh(name, write);
            self.masters.insert(name.to_string(), Rc::new(f));
        }
        Rc::clone(&self.masters[name])
    }
    fn redirection(&mut self, spec: &str, write: bool, stream: i32) -> Redirection {
        self.cur_stream = stream;
        let (kind, name) = match spec.find(':') {
            Some(i) => (&spec[..i], &spec[i + 1..]),
            None => (spec, "x"),
        };
        match kind {
            "none" => Redirection::None,
            "pipe" => Redirection::Pipe,
            "merge" => Redirection::Merge,
            "file" if name == "@earlier" => {
                let f = self.earlier_out.take().expect("an earlier Popen with a stdout pipe");
                self.note(&f);
                Redirection::File(f)
            }
            "file" => {
                let f = self.fresh(name, write);
                self.note(&f);
                Redirection::File(f)
            }
            "dup" => {
                let m = self.master(name, write);
                let f = m.try_clone().unwrap();
                self.note(&f);
                Redirection::File(f)
            }
            "rc" => {
                let m = self.master(name, write);
                self.note(&m);
                Redirection::RcFile(m)
            }
            x => panic!("bad redirection {}", x),
        }
    }
    fn note(&mut self, f: &File) {
        let mut st: libc::stat = unsafe { std::mem::zeroed() };
        unsafe { libc::fstat(f.as_raw_fd(), &mut st) };
        self.opened.push(json!([f.as_raw_fd(), self.cur_stream]));
    }
}

fn set_mask(sigs: &[i64]) -> u64 {
    let mut m: u64 = 0;
    for s in sigs {
        m |= 1u64 << (s - 1);
    }
    let mut old: u64 = 0;
    unsafe {
        libc::syscall(libc::SYS_rt_sigprocmask, libc::SIG_SETMASK, &m as *const u64, &mut old as *mut u64, 8usize);
    }
    old
}
fn restore_mask(m: u64) {
    unsafe {
        libc::syscall(libc::SYS_rt_sigprocmask, libc::SIG_SETMASK, &m as *const u64, std::ptr::null_mut::<u64>(), 8usize);
    }
}

fn fault_of(v: &Value) -> Option<Fault> {
    if !v.is_object() {
        return None;
    }
    let kind = slog::KNAME.iter().position(|k| *k == v["kind"].as_str().unwrap()).unwrap() as u32;
    Some(Fault {
        kind,
        nth: v["nth"].as_u64().unwrap() as u32,
        side: v["side"].as_u64().unwrap() as u32,
        errno: v["errno"].as_i64().unwrap() as i32,
    })
}

fn one_spawn(v: &Value, files: &mut Files, out: &mut Vec<String>, idx: usize) {
    let mut argv: Vec<OsString> = v["argv"].as_array().unwrap().iter().map(|a| os(a.as_str().unwrap())).collect();
    let mut cfg = PopenConfig::default();
    cfg.stdin = files.redirection(v["stdin"].as_str().unwrap_or("none"), false, 0);
    cfg.stdout = files.redirection(v["stdout"].as_str().unwrap_or("none"), true, 1);
    cfg.stderr = files.redirection(v["stderr"].as_str().unwrap_or("none"), true, 2);
    cfg.detached = v["detached"].as_bool().unwrap_or(false);
    cfg.executable = v["exe"].as_str().map(os);
    if v["exe_is_cmd"].as_bool().unwrap_or(false) {
        cfg.executable = Some(argv[0].clone());
    }
    cfg.env = v["env"].as_array().map(|l| {
        l.iter().map(|kv| (os(kv[0].as_str().unwrap()), os(kv[1].as_str().unwrap()))).collect()
    });
    cfg.cwd = v["cwd"].as_str().map(os);
    cfg.setuid = v["setuid"].as_u64().map(|x| x as u32);
    cfg.setgid = v["setgid"].as_u64().map(|x| x as u32);
    cfg.setpgid = v["setpgid"].as_bool().unwrap_or(false);
    if v["exe_is_cmd"].as_bool().unwrap_or(false) {
        argv[0] = OsString::from("different-argv0");
    }
    if v["clone_cfg"].as_bool().unwrap_or(false) {
        // the configuration is used as a template: what is launched is a clone of it
        let c = cfg.try_clone().expect("try_clone");
        drop(cfg);
        cfg = c;
    }
    // "clone_keep": a clone of the configuration (a template kept for later) stays alive while the original is launched
    let kept = if v["clone_keep"].as_bool().unwrap_or(false) { Some(cfg.try_clone().expect("try_clone")) } else { None };
    let passed: Vec<Value> = files.opened.drain(..).collect();

    // "repoint": between two launches of the same thread the parent re-points its own stdout / stderr at
    // another file (dup2 onto fd 1 / 2, as a daemonising or log-rotating program does); the next child must
    // inherit (and merge onto) the parent's CURRENT stream
    if idx >= v["repoint_from"].as_u64().unwrap_or(1) as usize {
        if let Some(which) = v["repoint"].as_i64() {
            if v["repoint_earlier"].as_bool().unwrap_or(false) {
                // ... at the writing end of a living Popen's stdin pipe (the parent logs through a child)
                unsafe {
                    simk::raw::dup2(files.earlier_in_fd, which as i32);
                }
            } else {
                let p = format!("{}/repoint_{}_{}", tmpd(), which, idx);
                let f = fs::OpenOptions::new().create(true).write(true).truncate(true).open(&p).unwrap();
                unsafe {
                    simk::raw::dup2(f.as_raw_fd(), which as i32);
                }
            }
        }
    }
    let pre = fd_table();
    // "raw_environ": the parent itself was started with an unusual environment block (repeated names, entries without
    // '='): `environ` is pointed at exactly these entries for the duration of the launch
    extern "C" {
        static mut environ: *mut *mut libc::c_char;
    }
    let mut raw_store: Vec<Vec<u8>> = vec![];
    let mut raw_ptrs: Vec<*mut libc::c_char> = vec![];
    let saved_environ = unsafe { environ };
    if let Some(l) = v["raw_environ"].as_array() {
        for e in l {
            let mut b = unhex(e.as_str().unwrap());
            b.push(0);
            raw_store.push(b);
        }
        for b in raw_store.iter_mut() {
            raw_ptrs.push(b.as_mut_ptr() as *mut libc::c_char);
        }
        raw_ptrs.push(std::ptr::null_mut());
        unsafe { environ = raw_ptrs.as_mut_ptr() };
    }
    // the parent's environment as it is: every entry of `environ`, in order, whatever it looks like
    let penv: Vec<String> = unsafe {
        let mut out = vec![];
        let mut p = environ;
        while !p.is_null() && !(*p).is_null() {
            let e = std::ffi::CStr::from_ptr(*p).to_bytes();
            out.push(e.iter().map(|b| format!("{:02x}", b)).collect::<String>());
            p = p.add(1);
        }
        out
    };
    let pcwd: String = std::env::current_dir().unwrap().as_os_str().as_bytes().iter().map(|b| format!("{:02x}", b)).collect();
    out.push(json!({"e":"pre","i":idx,"fds":pre,"pass":passed,"penv":penv,"pcwd":pcwd}).to_string());
    slog::set_fault(fault_of(&v["fault"]));
    slog::FAULT_DELAY_US.store(v["fault"]["delay_us"].as_u64().unwrap_or(0), std::sync::atomic::Ordering::SeqCst);
    slog::PARENT_DELAY_AFTER_FORK_US.store(v["parent_delay_us"].as_u64().unwrap_or(0), std::sync::atomic::Ordering::SeqCst);
    slog::resume();
    let res = catch_unwind(AssertUnwindSafe(|| Popen::create(&argv, cfg)));
    if unsafe { slog::IN_CHILD } != 0 {
        // We are the forked child and came back out of Popen::create (it neither exec'ed nor
        // _exit'ed, e.g. it panicked and unwound as a copy of the parent).  Record that and vanish.
        slog::rec(slog::K_ESCAPE, 0, 0, 0, 0, 0, b"");
        unsafe { simk::raw::exit_group(98) };
    }
    slog::stop();
    let fault_fired = slog::fault_fired();
    unsafe { environ = saved_environ };
    slog::PARENT_DELAY_AFTER_FORK_US.store(0, std::sync::atomic::Ordering::SeqCst);
    slog::set_fault(None);
    slog::FAULT_DELAY_US.store(0, std::sync::atomic::Ordering::SeqCst);
    let (forked, child_pids) = sys_events(out);
    match res {
        Ok(Ok(mut p)) => {
            let fdof = |f: &Option<File>| f.as_ref().map(|x| x.as_raw_fd()).unwrap_or(-1);
            let pid = p.pid().unwrap_or(0);
            out.push(json!({"e":"result","ok":true,"errkind":"none","errno":0,
                "has":[p.stdin.is_some(),p.stdout.is_some(),p.stderr.is_some()],
                "pfd":[fdof(&p.stdin),fdof(&p.stdout),fdof(&p.stderr)],"pid_known":pid != 0,"forked":forked,"fault_fired":fault_fired}).to_string());
            // what the parent holds right now (its pipe ends are part of this table)
            out.push(json!({"e":"held","fds":fd_table()}).to_string());
            let rep = read_report(pid);
            // release the pipe ends, then reap
            p.stdin.take();
            p.stdout.take();
            p.stderr.take();
            let st = p.wait();
            match rep {
                Some(r) => out.push(compact_report(&r).to_string()),
                None => out.push(json!({"e":"noreport","status":format!("{:?}", st)}).to_string()),
            }
            drop(p);
        }
        Ok(Err(e)) => {
            let (kind, errno) = match &e {
                PopenError::IoError(io) => ("io", io.raw_os_error().unwrap_or(0)),
                PopenError::LogicError(_) => ("logic", 0),
                _ => ("other", 0),
            };
            out.push(json!({"e":"result","ok":false,"errkind":kind,"errno":errno,"has":[false,false,false],
                "pfd":[-1,-1,-1],"pid_known":false,"forked":forked,"fault_fired":fault_fired,"msg":e.to_string()}).to_string());
            // a child that reported although create failed?
            for cp in &child_pids {
                let p = format!("{}/{}.json", vr(), cp);
                if std::path::Path::new(&p).exists() {
                    let _ = fs::remove_file(&p);
                    out.push(json!({"e":"stray_report","pid":cp}).to_string());
                }
            }
        }
        Err(_) => {
            out.push(json!({"e":"result","ok":false,"errkind":"panic","errno":0,"has":[false,false,false],
                "pfd":[-1,-1,-1],"pid_known":false,"forked":forked,"fault_fired":fault_fired}).to_string());
        }
    }
    let _ = child_pids;
    drop(kept);
}

/// C08's consequence, observed directly: a command A waits for end-of-file on its piped stdin; another thread launches B
/// (a launch that succeeds, or fails in one of several ways); the parent closes A's stdin while B's launch is under way
/// and measures how long A's end-of-file (seen as end-of-file on A's stdout) takes to arrive.
fn run_eofrace(v: &Value, out: &mut Vec<String>) {
    use std::io::Read;
    let vch = format!("{}/vchild", std::env::current_exe().unwrap().parent().unwrap().display());
    let mut a = Popen::create(
        &[vch.as_str(), "@script", "R", "x0"],
        PopenConfig { stdin: Redirection::Pipe, stdout: Redirection::Pipe, ..Default::default() },
    )
    .unwrap();
    let argv_b: Vec<OsString> = v["argv"].as_array().unwrap().iter().map(|x| os(x.as_str().unwrap())).collect();
    // (an executable somebody still has open for writing cannot be exec'ed: ETXTBSY)
    let hold = v["hold_write"].as_str().map(|p| fs::OpenOptions::new().write(true).open(os(p)).unwrap());
    let n_b = v["repeat"].as_u64().unwrap_or(1);
    let t = std::thread::spawn(move || {
        let mut started = 0;
        let mut pids = vec![];
        for _ in 0..n_b {
            if let Ok(mut p) = Popen::create(&argv_b, PopenConfig::default()) {
                started += 1;
                pids.push(p.pid().unwrap_or(0));
                let _ = p.wait();
            }
        }
        (started, pids)
    });
    std::thread::sleep(std::time::Duration::from_micros(v["delay_us"].as_u64().unwrap_or(0)));
    let t0 = std::time::Instant::now();
    drop(a.stdin.take());
    let mut buf = vec![];
    let _ = a.stdout.take().unwrap().read_to_end(&mut buf);
    let lat = t0.elapsed();
    let _ = a.wait();
    let (started, mut pids) = t.join().unwrap();
    drop(hold);
    pids.push(a.pid().unwrap_or(0));
    for pid in pids {
        let _ = fs::remove_file(format!("{}/{}.json", vr(), pid));
    }
    out.push(json!({"e":"eoflat","us":lat.as_micros() as u64,"b_started":started}).to_string());
}

fn run_one(v: &Value, out: &mut Vec<String>) {
    watchdog_arm();
    run_one_inner(v, out);
    let w = watchdog_disarm();
    // insert the watchdog observations before the post/end events
    let at = out.len().saturating_sub(2);
    for (k, l) in w.into_iter().enumerate() {
        out.insert(at + k, l);
    }
}

fn run_one_inner(v: &Value, out: &mut Vec<String>) {
    // "closed_std": the parent runs with some of its standard descriptors closed (a daemon, a service started with
    // `<&-`): files it opens and pipes the library creates then land on the numbers 0-2
    let closed: Vec<(i32, i32)> = v["closed_std"]
        .as_array()
        .map(|l| {
            l.iter()
                .map(|x| {
                    let fd = x.as_i64().unwrap() as i32;
                    let keep = unsafe { simk::raw::fcntl(fd, libc::F_DUPFD_CLOEXEC, 100) };
                    unsafe { simk::raw::close(fd) };
                    (fd, keep)
                })
                .collect()
        })
        .unwrap_or_default();
    // "parent_ids": the parent runs with real ids that differ from its effective ones (a set-user-ID program, a daemon
    // that kept its saved id): [real, effective, saved] for "uid" / "gid"
    let ids = |k: &str| -> Option<(u32, u32, u32)> {
        v["parent_ids"][k].as_array().map(|l| (l[0].as_u64().unwrap() as u32, l[1].as_u64().unwrap() as u32, l[2].as_u64().unwrap() as u32))
    };
    if let Some((r, e, s)) = ids("gid") {
        assert_eq!(unsafe { libc::setresgid(r, e, s) }, 0);
    }
    if let Some((r, e, s)) = ids("uid") {
        assert_eq!(unsafe { libc::setresuid(r, e, s) }, 0);
    }
    // "std_cloexec": the parent's own standard descriptors carry the close-on-exec flag (a file the program opened
    // itself landed there after the original was closed)
    let cx: Vec<i32> = v["std_cloexec"].as_array().map(|l| l.iter().map(|x| x.as_i64().unwrap() as i32).collect()).unwrap_or_default();
    for fd in &cx {
        unsafe { simk::raw::fcntl(*fd, libc::F_SETFD, libc::FD_CLOEXEC as i64) };
    }
    run_one_body(v, out);
    for fd in &cx {
        unsafe { simk::raw::fcntl(*fd, libc::F_SETFD, 0) };
    }
    if ids("uid").is_some() {
        assert_eq!(unsafe { libc::setresuid(0, 0, 0) }, 0);
    }
    if ids("gid").is_some() {
        assert_eq!(unsafe { libc::setresgid(0, 0, 0) }, 0);
    }
    for (fd, keep) in closed {
        unsafe {
            simk::raw::dup2(keep, fd);
            simk::raw::close(keep);
        }
    }
}

fn run_one_body(v: &Value, out: &mut Vec<String>) {
    let _ = fs::create_dir_all(tmpd());
    let mut files = Files { masters: Default::default(), next_off: 0, opened: vec![], cur_stream: 0, earlier_out: None, earlier_in_fd: -1 };
    out.push(json!({"e":"reset","id":v["id"],"kind":"spawn","cfg":{
        "stdin":v["stdin"].as_str().unwrap_or("none").split(':').next().unwrap(),
        "stdout":v["stdout"].as_str().unwrap_or("none").split(':').next().unwrap(),
        "stderr":v["stderr"].as_str().unwrap_or("none").split(':').next().unwrap(),
        "sin":v["stdin"].as_str().unwrap_or("none"),"sout":v["stdout"].as_str().unwrap_or("none"),
        "serr":v["stderr"].as_str().unwrap_or("none"),
        "detached":v["detached"].as_bool().unwrap_or(false),
        "argv":if v["exe_is_cmd"].as_bool().unwrap_or(false) {
            let mut a = v["argv"].as_array().unwrap().clone();
            a[0] = json!("646966666572656e742d6172677630");
            Value::Array(a)
        } else { v["argv"].clone() },"has_exe":v["exe"].is_string(),"exe":v["exe"].as_str().unwrap_or(""),
        "has_env":v["env"].is_array(),"env":if v["env"].is_array() {v["env"].clone()} else {json!([])},
        "has_cwd":v["cwd"].is_string(),"cwd":v["cwd"].as_str().unwrap_or(""),
        "setuid":v["setuid"].as_i64().unwrap_or(-1),"setgid":v["setgid"].as_i64().unwrap_or(-1),
        "setpgid":v["setpgid"].as_bool().unwrap_or(false),
        "has_fault":v["fault"].is_object(),
        "fault_kind":v["fault"]["kind"].as_str().unwrap_or(""),"fault_side":v["fault"]["side"].as_i64().unwrap_or(-1),
        "fault_errno":v["fault"]["errno"].as_i64().unwrap_or(0),
        "nul":v["nul"].as_bool().unwrap_or(false),
        "expect_start":v["expect_start"].as_bool().unwrap_or(true),
        "has_expexe":v["expexe"].is_string(),"expexe":v["expexe"].as_str().unwrap_or(""),
        "has_path":v["has_path"].as_bool().unwrap_or(false),
        "path_entries":if v["path_entries"].is_array() {v["path_entries"].clone()} else {json!([])},
        "cmd":v["cmd"].as_str().unwrap_or(""),"class":v["class"].as_str().unwrap_or("")},
        "base":fd_table()}).to_string());

    slog::reset();
    if v["class"].as_str() == Some("eof-race") {
        run_eofrace(v, out);
        let ch = children_state();
        if ch == "running" {
            kill_all_children();
        }
        out.push(json!({"e":"post","fds":fd_table(),"children":ch}).to_string());
        out.push(json!({"e":"end"}).to_string());
        return;
    }
    // process-wide pre-state
    let old_path = std::env::var_os("PATH");
    if let Some(p) = v["path"].as_str() {
        std::env::set_var("PATH", os(p));
    } else if v["path_unset"].as_bool().unwrap_or(false) {
        std::env::remove_var("PATH");
    }
    let mask: Vec<i64> = v["mask"].as_array().map(|l| l.iter().map(|x| x.as_i64().unwrap()).collect()).unwrap_or_default();
    let sigpipe_dfl = v["sigpipe"].as_str() == Some("dfl");
    if sigpipe_dfl {
        unsafe { libc::signal(libc::SIGPIPE, libc::SIG_DFL) };
    }
    // earlier Popens that stay alive (with all their pipe ends) while this one is spawned
    let mut earlier: Vec<Popen> = vec![];
    for _ in 0..v["earlier"].as_u64().unwrap_or(0) {
        let vch = format!("{}/vchild", std::env::current_exe().unwrap().parent().unwrap().display());
        out.push(json!({"e":"pre","i":-1,"fds":fd_table(),"pass":[],"penv":[],"pcwd":""}).to_string());
        slog::resume();
        let p = Popen::create(
            &[vch.as_str(), "@script", "R", "x0"],
            PopenConfig { stdin: Redirection::Pipe, stdout: Redirection::Pipe, stderr: Redirection::Pipe, ..Default::default() },
        );
        slog::stop();
        // their system calls are part of the trace: the pipes they create are library pipes too
        sys_events(out);
        earlier.push(p.unwrap());
    }
    let mut earlier_out: Option<File> = earlier.get_mut(0).and_then(|p| p.stdout.take());
    if v["stdin"].as_str() != Some("file:@earlier") {
        // (not asked for: put it back)
        if let Some(f) = earlier_out.take() {
            earlier[0].stdout = Some(f);
        }
    }
    let earlier_in_fd: i32 = earlier.get(0).and_then(|p| p.stdin.as_ref()).map(|f| f.as_raw_fd()).unwrap_or(-1);
    let saved_std: Option<(i32, i32)> = v["repoint"].as_i64().map(|w| {
        let keep = unsafe { simk::raw::fcntl(w as i32, libc::F_DUPFD_CLOEXEC, 100) };
        (w as i32, keep)
    });
    let repeat = v["repeat"].as_u64().unwrap_or(1) as usize;
    let in_thread = v["thread"].as_bool().unwrap_or(false);
    let mut body = |out: &mut Vec<String>| {
        let old = set_mask(&mask);
        let mut files = Files { masters: Default::default(), next_off: 100, opened: vec![], cur_stream: 0, earlier_out: None, earlier_in_fd: -1 };
        files.earlier_out = earlier_out.take();
        files.earlier_in_fd = earlier_in_fd;
        for i in 0..repeat {
            one_spawn(v, &mut files, out, i);
        }
        restore_mask(old);
    };
    if in_thread {
        let v2 = v.clone();
        let lines = std::thread::spawn(move || {
            let mut o = vec![];
            let mask: Vec<i64> = v2["mask"].as_array().map(|l| l.iter().map(|x| x.as_i64().unwrap()).collect()).unwrap_or_default();
            let old = set_mask(&mask);
            let mut files = Files { masters: Default::default(), next_off: 100, opened: vec![], cur_stream: 0, earlier_out: None, earlier_in_fd: -1 };
            files.earlier_in_fd = earlier_in_fd;
            for i in 0..v2["repeat"].as_u64().unwrap_or(1) as usize {
                one_spawn(&v2, &mut files, &mut o, i);
            }
            restore_mask(old);
            o
        })
        .join()
        .unwrap();
        out.extend(lines);
    } else {
        body(out);
    }
    let _ = &mut files;
    if let Some((w, keep)) = saved_std {
        unsafe {
            simk::raw::dup2(keep, w);
            simk::raw::close(keep);
        }
    }
    // tear down the earlier Popens: closing their stdin lets them exit
    for mut p in earlier {
        p.stdin.take();
        p.stdout.take();
        p.stderr.take();
        let _ = p.wait();
        if let Some(pid) = p.pid() {
            let _ = fs::remove_file(format!("{}/{}.json", vr(), pid));
        }
    }
    if sigpipe_dfl {
        unsafe { libc::signal(libc::SIGPIPE, libc::SIG_IGN) };
    }
    match old_path {
        Some(p) => std::env::set_var("PATH", p),
        None => std::env::remove_var("PATH"),
    }
    let ch = children_state();
    if ch == "running" {
        kill_all_children();
    }
    out.push(json!({"e":"post","fds":fd_table(),"children":ch}).to_string());
    out.push(json!({"e":"end"}).to_string());
}

fn main() {
    let args: Vec<String> = std::env::args().collect();
    slog::init();
    slog::install();
    begin_run();
    let mut outf = std::io::BufWriter::new(File::create(&args[2]).unwrap());
    let mut n = 0;
    for line in BufReader::new(File::open(&args[1]).unwrap()).lines() {
        let line = line.unwrap();
        if line.trim().is_empty() {
            continue;
        }
        let v: Value = serde_json::from_str(&line).unwrap();
        let mut lines = vec![];
        run_one(&v, &mut lines);
        n += 1;
        for l in lines {
            outf.write_all(l.as_bytes()).unwrap();
            outf.write_all(b"\n").unwrap();
        }
    }
    outf.flush().unwrap();
    end_run();
    let summary = format!("spawn_replay: {} scenarios, interposed calls seen: {}", n, simk::hooks::SEEN.load(std::sync::atomic::Ordering::Relaxed));
    // (stderr may have been closed by the code under test: the summary also goes to a side file)
    let _ = fs::write(format!("{}.summary", &args[2]), &summary);
    eprintln!("{}", summary);
}
