//! Real-kernel scenarios at the level of the builder API: pipelines (C13, C14, C08), handles and
//! adapters being dropped (C12) and builder call sequences (C16).  Stages / children are `vchild`
//! programs that report what they see; every libc call the library makes is logged; a watchdog
//! collects wait-for evidence when a call hangs.
//!
//! usage: api_replay <scenarios.ndjson> <trace-out.ndjson>
use serde_json::{json, Value};
use simk::rk::*;
use simk::slog;
use std::fs::{self, File};
use std::io::{BufRead, BufReader, Read, Seek, SeekFrom, Write};
use std::panic::{catch_unwind, AssertUnwindSafe};
use subprocess::{Exec, ExitStatus, NullFile, Pipeline, Popen, PopenError, Redirection};

simk::define_interposers!();

#[global_allocator]
static ALLOC: slog::CountingAlloc = slog::CountingAlloc;


fn vchild() -> String {
    format!("{}/vchild", std::env::current_exe().unwrap().parent().unwrap().display())
}

fn st_json(s: ExitStatus) -> Value {
    match s {
        ExitStatus::Exited(c) => json!({"k":"exited","v":c}),
        ExitStatus::Signaled(s) => json!({"k":"signaled","v":s}),
        ExitStatus::Other(x) => json!({"k":"other","v":x}),
        ExitStatus::Undetermined => json!({"k":"undetermined","v":0}),
    }
}

fn err_json(e: &PopenError) -> (String, i32) {
    match e {
        PopenError::IoError(io) => ("io".into(), io.raw_os_error().unwrap_or(0)),
        PopenError::LogicError(_) => ("logic".into(), 0),
        _ => ("other".into(), 0),
    }
}

/// local, expectation-free summary of pipeline output: lines "L<i><suffix>" with consecutive i and one
/// common suffix are summarised; anything else is listed raw (truncated)
fn summarize(out: &[u8]) -> Value {
    let text = String::from_utf8_lossy(out).into_owned();
    let lines: Vec<&str> = text.split('\n').filter(|l| !l.is_empty()).collect();
    let mut first = 0i64;
    let mut suffix: Option<String> = None;
    let mut regular = true;
    for (k, l) in lines.iter().enumerate() {
        if !l.starts_with('L') {
            regular = false;
            break;
        }
        let digits: String = l[1..].chars().take_while(|c| c.is_ascii_digit()).collect();
        if digits.is_empty() {
            regular = false;
            break;
        }
        let num: i64 = digits.parse().unwrap_or(-1);
        let suf = l[1 + digits.len()..].to_string();
        if k == 0 {
            first = num;
            suffix = Some(suf);
        } else if num != first + k as i64 || suffix.as_deref() != Some(suf.as_str()) {
            regular = false;
            break;
        }
    }
    if regular {
        json!({"regular":true,"first":first,"count":lines.len(),"suffix":suffix.unwrap_or_default(),"raw":[],"bytes":out.len()})
    } else {
        let raw: Vec<&str> = lines.iter().take(20).cloned().collect();
        json!({"regular":false,"first":0,"count":lines.len(),"suffix":"","raw":raw,"bytes":out.len()})
    }
}

fn input_lines(n: usize) -> Vec<u8> {
    let mut v = Vec::new();
    for i in 1..=n {
        v.extend_from_slice(format!("L{}\n", i).as_bytes());
    }
    v
}

fn tmpfile(name: &str) -> String {
    let _ = fs::create_dir_all(tmpd());
    format!("{}/{}", tmpd(), name)
}

fn sorted_lines(b: &[u8]) -> Vec<String> {
    let mut l: Vec<String> = String::from_utf8_lossy(b).split('\n').filter(|x| !x.is_empty()).map(|x| x.to_string()).collect();
    l.sort();
    l
}

fn stage_reports(out: &mut Vec<String>, pids: &[u32]) {
    for pid in pids {
        let p = format!("{}/{}.json", vr(), pid);
        // a stage that failed to exec never reports
        let mut rep = None;
        for _ in 0..60 {
            if let Ok(s) = fs::read_to_string(&p) {
                if let Ok(v) = serde_json::from_str::<Value>(&s) {
                    rep = Some(v);
                    break;
                }
            }
            // a process that is gone (or a zombie) without having reported never will
            let st = fs::read_to_string(format!("/proc/{}/stat", pid)).unwrap_or_default();
            let state = st.rsplit(')').next().and_then(|r| r.split_whitespace().next().map(|s| s.to_string()));
            if state.is_none() || state.as_deref() == Some("Z") {
                if !std::path::Path::new(&p).exists() {
                    break;
                }
            }
            std::thread::sleep(std::time::Duration::from_millis(5));
        }
        if let Some(r) = rep {
            let _ = fs::remove_file(&p);
            let fds: Vec<Value> = r["fds"].as_array().unwrap().iter()
                .map(|f| json!([f["fd"], f["ino"], f["acc"], f["pos"], f["cloexec"]])).collect();
            let argv: Vec<String> = r["argv"].as_array().unwrap().iter()
                .map(|a| String::from_utf8_lossy(&unhex(a.as_str().unwrap())).into_owned()).collect();
            out.push(json!({"e":"stage","pid":pid,"argv":argv,"tag":argv.get(2).cloned().unwrap_or_default(),
                "fds":fds,"env":r["env"],"cwd":r["cwd"],
                "mask_empty": u64::from_str_radix(r["sigblk"].as_str().unwrap_or("0"), 16).unwrap_or(1) == 0,
                "sigpipe_ignored": u64::from_str_radix(r["sigign"].as_str().unwrap_or("0"), 16).unwrap_or(0) & (1 << 12) != 0}).to_string());
        }
        let _ = fs::remove_file(format!("{}/{}.log", vr(), pid));
    }
}

fn unhex(s: &str) -> Vec<u8> {
    (0..s.len() / 2).map(|i| u8::from_str_radix(&s[2 * i..2 * i + 2], 16).unwrap()).collect()
}

fn build_pipeline(v: &Value) -> Pipeline {
    build_pipeline_upto(v, None).0
}

/// `upto` = Some(m): compose only the first m commands (left to right) and hand back the others, so that the caller
/// can configure the pipeline first and append the rest with `| command` afterwards
fn build_pipeline_upto(v: &Value, upto: Option<usize>) -> (Pipeline, Vec<Exec>) {
    let n = v["n"].as_u64().unwrap() as usize;
    let fail_at = v["fail_at"].as_i64().unwrap_or(-1);
    let det = v["detached"].as_bool().unwrap_or(false);
    let mut stages: Vec<Exec> = vec![];
    for i in 0..n {
        let mut e = if fail_at == i as i64 {
            Exec::cmd(format!("/no/such/stage-program-{}", i))
        } else if v["stubborn"].as_bool().unwrap_or(false) && i == 0 {
            // a writer that ignores write errors: it ends only when SIGPIPE kills it
            Exec::cmd(vchild()).arg("@stubborn").arg(v["tags"][i].as_str().unwrap())
        } else if v["noisy"].as_bool().unwrap_or(false) && i == 0 {
            // writes more to its standard error than a pipe holds before it looks at its input
            Exec::cmd(vchild()).arg("@script").arg("we300000").arg("R").arg("x0")
        } else if v["sip"].as_bool().unwrap_or(false) {
            // every command copies its input through in 4 KiB units (cat-like): the input comes from the caller
            Exec::cmd(vchild()).arg("@cat").arg(v["tags"][i].as_str().unwrap())
        } else if v["stream"].as_bool().unwrap_or(false) {
            // streaming stages: the first one generates a lot of data, the others copy it through as they read
            // (back-pressure like `yes | cat | ...`)
            if i == 0 {
                Exec::cmd(vchild()).arg("@gen").arg(v["tags"][i].as_str().unwrap()).arg("400000")
            } else if i == n - 1 && v["head"].as_bool().unwrap_or(false) {
                // the last command exits at once (like `head -n0`): everything upstream must be released by SIGPIPE
                Exec::cmd(vchild()).arg("@quit").arg(v["tags"][i].as_str().unwrap())
            } else {
                Exec::cmd(vchild()).arg("@cat").arg(v["tags"][i].as_str().unwrap())
            }
        } else {
            Exec::cmd(vchild()).arg("@stage").arg(v["tags"][i].as_str().unwrap())
                .arg(v["codes"][i].as_u64().unwrap().to_string()).arg(v["elines"][i].as_str().unwrap())
        };
        if det {
            e = e.detached();
        }
        // "own_stderr": this command has a stderr pipe of its own (Exec::stderr(Redirection::Pipe)); it writes more to
        // it than a pipe holds before it looks at its input
        if v["own_stderr"].as_i64() == Some(i as i64) && fail_at != i as i64 {
            e = Exec::cmd(vchild()).arg("@script").arg("we300000").arg("R").arg("x0").stderr(Redirection::Pipe);
            if det {
                e = e.detached();
            }
        }
        stages.push(e);
    }
    if let Some(m) = upto {
        let rest = stages.split_off(m);
        let mut it = stages.into_iter();
        let mut p = it.next().unwrap() | it.next().unwrap();
        for e in it {
            p = p | e;
        }
        return (p, rest);
    }
    if v["tree"].is_array() {
        // an explicit composition tree: leaf = stage index, node = [left, right]
        enum E {
            X(Exec),
            P(Pipeline),
        }
        fn build(t: &Value, st: &mut Vec<Option<Exec>>) -> E {
            if let Some(i) = t.as_u64() {
                return E::X(st[i as usize].take().unwrap());
            }
            let l = build(&t[0], st);
            let r = build(&t[1], st);
            match (l, r) {
                (E::X(a), E::X(b)) => E::P(a | b),
                (E::P(a), E::X(b)) => E::P(a | b),
                (E::P(a), E::P(b)) => E::P(a | b),
                (E::X(_), E::P(_)) => panic!("Exec | Pipeline is not part of the API"),
            }
        }
        let mut st: Vec<Option<Exec>> = stages.into_iter().map(Some).collect();
        return match build(&v["tree"], &mut st) {
            E::P(p) => (p, vec![]),
            E::X(_) => panic!("a pipeline needs two commands"),
        };
    }
    let shape = v["shape"].as_str().unwrap_or("left");
    let mut it = stages.into_iter();
    let p = match shape {
        "iter" => Pipeline::from_exec_iter(it),
        "pp" => {
            // (a | b | ...) | (... | y | z): split in the middle, both halves need two commands
            let all: Vec<Exec> = it.collect();
            let mid = all.len() / 2;
            let mut l = all;
            let r = l.split_off(mid);
            let mut li = l.into_iter();
            let mut left = li.next().unwrap() | li.next().unwrap();
            for e in li {
                left = left | e;
            }
            let mut ri = r.into_iter();
            let mut right = ri.next().unwrap() | ri.next().unwrap();
            for e in ri {
                right = right | e;
            }
            left | right
        }
        _ => {
            let mut p = it.next().unwrap() | it.next().unwrap();
            for e in it {
                p = p | e;
            }
            p
        }
    };
    (p, vec![])
}

fn run_pipeline(v: &Value, out: &mut Vec<String>) {
    let nlines = v["nlines"].as_u64().unwrap_or(0) as usize;
    let data = input_lines(nlines);
    let term = v["term"].as_str().unwrap();
    let sin = v["stdin"].as_str().unwrap_or("inherit");
    let sout = v["stdout"].as_str().unwrap_or("inherit");
    let serr = v["stderr"].as_str().unwrap_or("inherit");
    // "config_after": m -- the redirections are set when the pipeline has m commands; the others are appended afterwards
    // "split_config": the pipeline is the composition (a | b ..) | (.. y | z) of two pipelines; where its input comes
    // from (and the error sink) was configured on the left one, where its output goes on the right one
    let split = v["split_config"].as_bool().unwrap_or(false);
    let (mut p, later) = build_pipeline_upto(
        v,
        if split { Some(v["n"].as_u64().unwrap() as usize / 2) } else { v["config_after"].as_u64().map(|m| m as usize) },
    );
    let inpath = tmpfile("in.txt");
    let outpath = tmpfile("out.txt");
    let errpath = tmpfile("err.txt");
    let _ = fs::remove_file(&outpath);
    let _ = fs::remove_file(&errpath);
    match sin {
        "file" => {
            fs::write(&inpath, &data).unwrap();
            p = p.stdin(File::open(&inpath).unwrap());
        }
        "data" => p = p.stdin(data.clone()),
        "pipe" => p = p.stdin(Redirection::Pipe),
        "null" => p = p.stdin(NullFile),
        _ => {}
    }
    if serr == "file" {
        p = p.stderr_to(File::create(&errpath).unwrap());
    }
    let set_out = |q: Pipeline| -> Pipeline {
        match sout {
            "file" => q.stdout(File::create(&outpath).unwrap()),
            "pipe" => q.stdout(Redirection::Pipe),
            "null" => q.stdout(NullFile),
            _ => q,
        }
    };
    if split {
        let mut it = later.into_iter();
        let mut right = it.next().unwrap() | it.next().unwrap();
        for e in it {
            right = right | e;
        }
        p = p | set_out(right);
    } else {
        p = set_out(p);
        for e in later {
            p = p | e;
        }
    }
    // "clone_run": the configured pipeline is a template; what is run is a clone of it (the template is gone by then)
    if v["clone_run"].as_bool().unwrap_or(false) {
        let q = p.clone();
        drop(p);
        p = q;
    }
    let pre = fd_table();
    out.push(json!({"e":"pre","fds":pre}).to_string());

    let mut output: Option<Vec<u8>> = None;
    let mut errout: Option<Vec<u8>> = None;
    let mut status: Option<ExitStatus> = None;
    let mut result: Result<(), PopenError> = Ok(());
    let mut pheld: Option<Vec<Value>> = None;
    // "wait_eintr": n -- a signal handler (installed without SA_RESTART) interrupts the n-th waitpid() of the call
    slog::set_fault(v["wait_eintr"].as_u64().map(|n| slog::Fault { kind: slog::K_WAITPID, nth: n as u32, side: 0, errno: libc::EINTR }));
    slog::resume();
    let r = catch_unwind(AssertUnwindSafe(|| -> Result<(), PopenError> {
        match term {
            "popen" => {
                let mut v = p.popen()?;
                // what the parent holds right after the pipeline has been started
                pheld = Some(fd_table());
                if let Some(mut w) = v[0].stdin.take() {
                    let _ = w.write_all(&data);
                }
                let n = v.len();
                if let Some(mut r) = v[n - 1].stdout.take() {
                    let mut b = vec![];
                    let _ = r.read_to_end(&mut b);
                    output = Some(b);
                }
                for q in v.iter_mut() {
                    status = Some(q.wait()?);
                }
            }
            "join" => status = Some(p.join()?),
            "capture" => {
                let c = p.capture()?;
                output = Some(c.stdout.clone());
                errout = Some(c.stderr.clone());
                status = Some(c.exit_status);
            }
            "communicate" => {
                let mut c = p.communicate()?;
                let (o, e) = c.read().map_err(|e| PopenError::from(e))?;
                output = o;
                errout = e;
            }
            "stream_stdout" => {
                let mut r = p.stream_stdout()?;
                let mut b = vec![];
                let _ = r.read_to_end(&mut b);
                output = Some(b);
                drop(r);
            }
            "stream_stdin" => {
                let mut w = p.stream_stdin()?;
                let _ = w.write_all(&data);
                drop(w);
            }
            x => panic!("bad terminator {}", x),
        }
        Ok(())
    }));
    slog::stop();
    slog::set_fault(None);
    if unsafe { slog::IN_CHILD } != 0 {
        slog::rec(slog::K_ESCAPE, 0, 0, 0, 0, 0, b"");
        unsafe { simk::raw::exit_group(98) };
    }
    let panicked = r.is_err();
    if let Ok(rr) = r {
        result = rr;
    }
    let (_forked, pids) = sys_events(out);
    out.push(json!({"e":"pheld","have":pheld.is_some(),"fds":pheld.unwrap_or_default()}).to_string());
    if sout == "file" {
        output = fs::read(&outpath).ok();
    }
    if serr == "file" {
        errout = fs::read(&errpath).ok();
    }
    let (ek, en) = match &result {
        Ok(()) => ("none".to_string(), 0),
        Err(e) => err_json(e),
    };
    let ino_of = |p: &str| -> i64 {
        use std::os::unix::fs::MetadataExt;
        fs::metadata(p).map(|m| m.ino() as i64).unwrap_or(0)
    };
    out.push(json!({"e":"presult","in_ino":ino_of(&inpath),"out_ino":ino_of(&outpath),"ok":result.is_ok() && !panicked,"errkind": if panicked {"panic".to_string()} else {ek},"errno":en,
        "has_status":status.is_some(),"status":status.map(st_json).unwrap_or(json!({"k":"none","v":0})),
        "has_out":output.is_some(),"out":summarize(output.as_deref().unwrap_or(b"")),
        "has_err":errout.is_some(),"err_lines":sorted_lines(errout.as_deref().unwrap_or(b""))}).to_string());
    stage_reports(out, &pids);
}

// ------------------------------------------------------------------ C12: handles being dropped
fn run_handle(v: &Value, out: &mut Vec<String>) {
    let handle = v["handle"].as_str().unwrap();
    let script: Vec<String> = v["script"].as_array().unwrap().iter().map(|x| x.as_str().unwrap().to_string()).collect();
    let read_some = v["read"].as_u64().unwrap_or(0) as usize;
    let write_some = v["write"].as_u64().unwrap_or(0) as usize;
    let det = v["detached"].as_bool().unwrap_or(false);
    let mk = |extra: &[String]| {
        let mut e = Exec::cmd(vchild()).arg("@script");
        for s in extra {
            e = e.arg(s);
        }
        if det {
            e = e.detached();
        }
        e
    };
    out.push(json!({"e":"pre","fds":fd_table()}).to_string());
    slog::resume();
    let r = catch_unwind(AssertUnwindSafe(|| -> Result<(), PopenError> {
        let rd = |r: &mut dyn Read| {
            let mut buf = vec![0u8; read_some];
            let mut got = 0;
            while got < read_some {
                match r.read(&mut buf[got..]) {
                    Ok(0) | Err(_) => break,
                    Ok(n) => got += n,
                }
            }
        };
        match handle {
            "popen_out" => {
                let mut p = mk(&script).stdout(Redirection::Pipe).popen()?;
                if read_some > 0 {
                    rd(p.stdout.as_mut().unwrap());
                }
                slog::rec(slog::K_MARK, 1, 0, 0, 0, 0, b"drop");
                drop(p);
            }
            "popen_in" => {
                let mut p = mk(&script).stdin(Redirection::Pipe).popen()?;
                let _ = p.stdin.as_mut().unwrap().write_all(&vec![b'x'; write_some]);
                slog::rec(slog::K_MARK, 1, 0, 0, 0, 0, b"drop");
                drop(p);
            }
            "popen_plain" => {
                let p = mk(&script).popen()?;
                slog::rec(slog::K_MARK, 1, 0, 0, 0, 0, b"drop");
                drop(p);
            }
            "stream_stdout" => {
                let mut r = mk(&script).stream_stdout()?;
                rd(&mut r);
                slog::rec(slog::K_MARK, 1, 0, 0, 0, 0, b"drop");
                drop(r);
            }
            "stream_stderr" => {
                let mut r = mk(&script).stream_stderr()?;
                rd(&mut r);
                slog::rec(slog::K_MARK, 1, 0, 0, 0, 0, b"drop");
                drop(r);
            }
            "stream_stdin" => {
                let mut w = mk(&script).stream_stdin()?;
                let _ = w.write_all(&vec![b'x'; write_some]);
                slog::rec(slog::K_MARK, 1, 0, 0, 0, 0, b"drop");
                drop(w);
            }
            "pl_stream_stdout" => {
                // first stage produces, second stage copies
                let first = mk(&script);
                let second = mk(&["R".to_string(), "x0".to_string()]).arg("ignored");
                let second = if v["second_writes"].as_bool().unwrap_or(true) {
                    mk(&vec!["wo200000".to_string(), "R".to_string(), "x0".to_string()])
                } else {
                    second
                };
                let mut r = (first | second).stream_stdout()?;
                rd(&mut r);
                slog::rec(slog::K_MARK, 1, 0, 0, 0, 0, b"drop");
                drop(r);
            }
            "pl_stream_stdin" => {
                let first = mk(&script);
                let second = mk(&["R".to_string(), "x0".to_string()]);
                let mut w = (first | second).stdout(NullFile).stream_stdin()?;
                let _ = w.write_all(&vec![b'x'; write_some]);
                slog::rec(slog::K_MARK, 1, 0, 0, 0, 0, b"drop");
                drop(w);
            }
            "pl_stream_stdin_outpipe" => {
                // the pipeline's stdout is a pipe nobody can read through the write adapter
                let first = mk(&script);
                let second = mk(&["wo300000".to_string(), "R".to_string(), "x0".to_string()]);
                let mut w = (first | second).stdout(Redirection::Pipe).stream_stdin()?;
                let _ = w.write_all(&vec![b'x'; write_some]);
                slog::rec(slog::K_MARK, 1, 0, 0, 0, 0, b"drop");
                drop(w);
            }
            "stream_stdin_outpipe" => {
                let mut w = mk(&script).stdout(Redirection::Pipe).stream_stdin()?;
                let _ = w.write_all(&vec![b'x'; write_some]);
                slog::rec(slog::K_MARK, 1, 0, 0, 0, 0, b"drop");
                drop(w);
            }
            "pl_stream_stdout_errpipe" => {
                // a stage with its own piped stderr inside a pipeline read through the read adapter
                let first = mk(&script).stderr(Redirection::Pipe);
                let second = Exec::cmd(vchild()).arg("@cat").arg("copy");
                let mut r = (first | second).stream_stdout()?;
                rd(&mut r);
                slog::rec(slog::K_MARK, 1, 0, 0, 0, 0, b"drop");
                drop(r);
            }
            "join" => {
                let _ = mk(&script).stdout(NullFile).join()?;
            }
            "capture" => {
                let _ = mk(&script).capture()?;
            }
            "capture_data" => {
                // much more input than a pipe holds, for a child that may exit without reading it
                let _ = mk(&script).stdin(vec![b'x'; write_some]).capture()?;
            }
            "pl_capture_data" => {
                let _ = (mk(&script) | mk(&["R".to_string(), "x0".to_string()])).stdin(vec![b'x'; write_some]).capture()?;
            }
            "pl_join" => {
                let _ = (mk(&script) | mk(&["R".to_string(), "x0".to_string()])).stdout(NullFile).join()?;
            }
            "pl_capture" => {
                let _ = (mk(&script) | mk(&["R".to_string(), "wo10".to_string(), "x0".to_string()])).capture()?;
            }
            x => panic!("bad handle {}", x),
        }
        Ok(())
    }));
    slog::stop();
    if unsafe { slog::IN_CHILD } != 0 {
        unsafe { simk::raw::exit_group(98) };
    }
    let (_f, pids) = sys_events(out);
    let ok = matches!(r, Ok(Ok(())));
    out.push(json!({"e":"hresult","ok":ok,"panicked":r.is_err()}).to_string());
    // what became of the children this handle started
    let mut alive = vec![];
    for pid in &pids {
        let st = fs::read_to_string(format!("/proc/{}/stat", pid)).unwrap_or_default();
        let state = st.rsplit(')').next().and_then(|r| r.split_whitespace().next().map(|s| s.to_string())).unwrap_or("gone".into());
        alive.push(json!([pid, state]));
        let _ = fs::remove_file(format!("{}/{}.json", vr(), pid));
        let _ = fs::remove_file(format!("{}/{}.log", vr(), pid));
    }
    out.push(json!({"e":"after_drop","children":alive}).to_string());
}

// ------------------------------------------------------------------ C16: builder call sequences
fn stream_kind(e: Exec, which: &str, kind: &str) -> Exec {
    let f = |write: bool| {
        let p = tmpfile(&format!("b_{}_{}", which, kind));
        if write { File::create(&p).unwrap() } else { fs::write(&p, b"").unwrap(); File::open(&p).unwrap() }
    };
    match (which, kind) {
        ("stdin", "pipe") => e.stdin(Redirection::Pipe),
        ("stdin", "null") => e.stdin(NullFile),
        ("stdin", "file") => e.stdin(f(false)),
        ("stdin", "merge") => e.stdin(Redirection::Merge),
        // ("data-" stands for empty input data: still input data, to be delivered -- as immediate end-of-file -- or refused)
        ("stdin", "data-") => e.stdin(Vec::<u8>::new()),
        ("stdin", d) if d.starts_with("data") => e.stdin(d.as_bytes().to_vec()),
        ("stdout", "pipe") => e.stdout(Redirection::Pipe),
        ("stdout", "null") => e.stdout(NullFile),
        ("stdout", "file") => e.stdout(f(true)),
        ("stdout", "merge") => e.stdout(Redirection::Merge),
        ("stderr", "pipe") => e.stderr(Redirection::Pipe),
        ("stderr", "null") => e.stderr(NullFile),
        ("stderr", "file") => e.stderr(f(true)),
        ("stderr", "merge") => e.stderr(Redirection::Merge),
        (a, b) => panic!("bad stream op {} {}", a, b),
    }
}

/// Strings that are not valid UTF-8 travel through scenarios, traces and the specification as "\u{1}hex:<hex digits>"
/// (reversible); everything else as itself.
fn enc_bytes(b: &[u8]) -> String {
    match std::str::from_utf8(b) {
        Ok(s) => s.to_string(),
        Err(_) => format!("\u{1}hex:{}", b.iter().map(|x| format!("{:02x}", x)).collect::<String>()),
    }
}
fn dec_os(s: &str) -> std::ffi::OsString {
    use std::os::unix::ffi::OsStringExt;
    match s.strip_prefix("\u{1}hex:") {
        Some(h) => std::ffi::OsString::from_vec(unhex(h)),
        None => std::ffi::OsString::from(s),
    }
}

fn apply_op(e: Exec, op: &Value) -> Exec {
    let a = op.as_array().unwrap();
    let s = |i: usize| a[i].as_str().unwrap().to_string();
    match a[0].as_str().unwrap() {
        "arg" => e.arg(s(1)),
        "args" => {
            let l: Vec<String> = a[1].as_array().unwrap().iter().map(|x| x.as_str().unwrap().to_string()).collect();
            e.args(&l)
        }
        "env" => e.env(dec_os(&s(1)), dec_os(&s(2))),
        "env_extend" => {
            let l: Vec<(std::ffi::OsString, std::ffi::OsString)> = a[1].as_array().unwrap().iter()
                .map(|kv| (dec_os(kv[0].as_str().unwrap()), dec_os(kv[1].as_str().unwrap()))).collect();
            e.env_extend(&l)
        }
        "env_remove" => e.env_remove(dec_os(&s(1))),
        "env_clear" => e.env_clear(),
        // not a builder call: the process environment changes while the command is being put together
        "setenv_proc" => {
            std::env::set_var(dec_os(&s(1)), dec_os(&s(2)));
            e
        }
        "cwd" => e.cwd(s(1)),
        "stdin" | "stdout" | "stderr" => stream_kind(e, a[0].as_str().unwrap(), a[1].as_str().unwrap()),
        "detached" => e.detached(),
        x => panic!("bad op {}", x),
    }
}

thread_local! {
    /// which of (stdout, stderr) the Communicator of the last `communicate` terminator reported as present
    static LAST_STREAMS: std::cell::Cell<Option<(bool, bool)>> = std::cell::Cell::new(None);
}

fn run_terminator(e: Exec, term: &str) -> Result<(), PopenError> {
    LAST_STREAMS.with(|c| c.set(None));
    match term {
        "join" => e.join().map(|_| ()),
        "capture" => e.capture().map(|_| ()),
        "popen" => {
            let mut p = e.popen()?;
            p.stdin.take();
            let mut sink = vec![];
            if let Some(mut o) = p.stdout.take() {
                let _ = o.read_to_end(&mut sink);
            }
            if let Some(mut o) = p.stderr.take() {
                let _ = o.read_to_end(&mut sink);
            }
            p.wait().map(|_| ())
        }
        "stream_stdout" => {
            let mut r = e.stream_stdout()?;
            let mut b = vec![];
            let _ = r.read_to_end(&mut b);
            Ok(())
        }
        "stream_stderr" => {
            let mut r = e.stream_stderr()?;
            let mut b = vec![];
            let _ = r.read_to_end(&mut b);
            Ok(())
        }
        "stream_stdin" => {
            let w = e.stream_stdin()?;
            drop(w);
            Ok(())
        }
        "communicate" => {
            let mut c = e.communicate()?;
            if let Ok((o, er)) = c.read() {
                LAST_STREAMS.with(|c| c.set(Some((o.is_some(), er.is_some()))));
            }
            Ok(())
        }
        x => panic!("bad terminator {}", x),
    }
}

fn run_builder(v: &Value, out: &mut Vec<String>) {
    let ops = v["ops"].as_array().unwrap();
    let term = v["term"].as_str().unwrap();
    let penv: Vec<Value> = {
        use std::os::unix::ffi::OsStrExt;
        std::env::vars_os().map(|(k, v)| json!([enc_bytes(k.as_bytes()), enc_bytes(v.as_bytes())])).collect()
    };
    let pcwd = std::env::current_dir().unwrap().to_string_lossy().into_owned();
    out.push(json!({"e":"bpre","penv":penv,"pcwd":pcwd,"base_argv":[vchild(), "@exit", "0"]}).to_string());
    unsafe { slog::LOG_EXEC_ARGS = true };
    // the panic messages of refused calls are expected: keep them off the terminal
    let hook = std::panic::take_hook();
    std::panic::set_hook(Box::new(|_| {}));
    let mut runs: Vec<(String, Exec)> = vec![];
    let mut refused_at: i64 = -1;
    let start = || -> Exec {
        if v["is_shell"].as_bool().unwrap_or(false) {
            Exec::shell(v["shell"].as_str().unwrap())
        } else {
            Exec::cmd(vchild()).args(&["@exit", "0"])
        }
    };
    let built = catch_unwind(AssertUnwindSafe(|| {
        let mut e = start();
        let mut idx = 0i64;
        let mut clones: Vec<(String, Exec)> = vec![];
        for op in ops {
            if op[0].as_str() == Some("clone") {
                // the original stays as it is (and is run as such), the work goes on with the clone
                let c = e.clone();
                clones.push((format!("orig@{}", idx), e));
                e = c;
            } else {
                let r = catch_unwind(AssertUnwindSafe(|| apply_op(e, op)));
                match r {
                    Ok(x) => e = x,
                    Err(_) => return (clones, None, idx),
                }
            }
            idx += 1;
        }
        (clones, Some(e), -1)
    }));
    let (clones, fin, r_at) = built.unwrap_or((vec![], None, -2));
    refused_at = if r_at != -1 { r_at } else { refused_at };
    runs.extend(clones);
    if let Some(e) = fin {
        runs.push(("final".to_string(), e));
    }
    let unset_after: Vec<std::ffi::OsString> = ops.iter().filter(|op| op[0].as_str() == Some("setenv_proc")).map(|op| dec_os(op[1].as_str().unwrap())).collect();
    // run every command obtained (clone originals with a plain join-like terminator of their own)
    for (name, e) in runs {
        slog::reset();
        slog::resume();
        let t = if name == "final" { term } else { v["orig_term"].as_str().unwrap_or("capture") };
        let r = catch_unwind(AssertUnwindSafe(|| run_terminator(e, t)));
        slog::stop();
        if unsafe { slog::IN_CHILD } != 0 {
            unsafe { simk::raw::exit_group(98) };
        }
        // what exec was given
        let recs = slog::records();
        let mut execargs: Vec<String> = vec![];
        let mut pids = vec![];
        for rc in &recs {
            if rc.kind == slog::K_EXECARG {
                if rc.a == 0 {
                    execargs.clear(); // one exec attempt per PATH entry: keep the last one
                }
                execargs.push(String::from_utf8_lossy(&rc.s[..rc.slen as usize]).into_owned());
            }
            if rc.kind == slog::K_FORK && rc.ret > 0 {
                pids.push(rc.ret as u32);
            }
        }
        let (ok, refused, errkind) = match &r {
            Ok(Ok(())) => (true, false, "none".to_string()),
            Ok(Err(e)) => (false, false, err_json(e).0),
            Err(_) => (false, true, "panic".to_string()),
        };
        // the child's report (argv / environ / cwd)
        let mut rep = json!({"have":false,"argv":[],"env":[],"cwd":""});
        for pid in &pids {
            let p = format!("{}/{}.json", vr(), pid);
            for _ in 0..100 {
                if let Ok(s) = fs::read_to_string(&p) {
                    if let Ok(rj) = serde_json::from_str::<Value>(&s) {
                        let dec = |h: &Value| enc_bytes(&unhex(h.as_str().unwrap()));
                        let argv: Vec<String> = rj["argv"].as_array().unwrap().iter().map(dec).collect();
                        let env: Vec<Value> = rj["env"].as_array().unwrap().iter().map(|h| {
                            let kv = unhex(h.as_str().unwrap());
                            match kv.iter().position(|b| *b == b'=') {
                                Some(i) => json!([enc_bytes(&kv[..i]), enc_bytes(&kv[i + 1..])]),
                                None => json!([enc_bytes(&kv), ""]),
                            }
                        }).collect();
                        rep = json!({"have":true,"argv":argv,"env":env,"cwd":dec(&rj["cwd"])});
                        let _ = fs::remove_file(&p);
                        break;
                    }
                }
                if !std::path::Path::new(&format!("/proc/{}", pid)).exists() && !std::path::Path::new(&p).exists() {
                    break;
                }
                std::thread::sleep(std::time::Duration::from_millis(3));
            }
        }
        let at: i64 = name.strip_prefix("orig@").and_then(|x| x.parse().ok()).unwrap_or(-1);
        out.push(json!({"e":"brun","which":if name == "final" {"final"} else {"orig"},"at":at,"term":t,"ok":ok,"refused":refused,"errkind":errkind,
            "execargs":execargs,"report":rep,
            "streams":LAST_STREAMS.with(|c| c.get()).map(|(o, e)| json!([true, o, e])).unwrap_or(json!([false, false, false]))}).to_string());
    }
    std::panic::set_hook(hook);
    for k in unset_after {
        std::env::remove_var(k);
    }
    unsafe { slog::LOG_EXEC_ARGS = false };
    out.push(json!({"e":"bresult","refused_at":refused_at}).to_string());
}

// ------------------------------------------------------------------ two threads launching in tight loops (no gate: the
// kernel picks the interleavings); every child reports what it was started with
fn run_stress(v: &Value, out: &mut Vec<String>) {
    use subprocess::PopenConfig;
    let n = v["launches"].as_u64().unwrap_or(40) as usize;
    out.push(json!({"e":"pre","fds":fd_table()}).to_string());
    let mk = |tag: &'static str, piped: bool, n: usize| {
        let vch = vchild();
        std::thread::spawn(move || {
            let mut pids = vec![];
            // thread B prepares much longer than thread A (a large environment): its fork tends to come after a
            // complete launch of A that began in the middle of B's
            let big_env: Option<Vec<(std::ffi::OsString, std::ffi::OsString)>> = if piped {
                None
            } else {
                Some((0..6000).map(|k| (format!("STRESS_VAR_{}", k).into(), "v".repeat(20).into())).collect())
            };
            let mut held: Vec<Popen> = vec![];
            for _ in 0..(if piped { 4 * n } else { n }) {
                let cfg = PopenConfig {
                    stdout: if piped { Redirection::Pipe } else { Redirection::None },
                    env: big_env.clone(),
                    ..Default::default()
                };
                if let Ok(mut p) = Popen::create(&[vch.as_str(), "@exit", "0", tag], cfg) {
                    if let Some(pid) = p.pid() {
                        pids.push(pid);
                    }
                    p.stdout.take();
                    held.push(p);
                    // (reap in batches: the thread should spend its time launching)
                    if held.len() >= 16 {
                        for mut q in held.drain(..) {
                            let _ = q.wait();
                        }
                    }
                }
            }
            for mut q in held.drain(..) {
                let _ = q.wait();
            }
            pids
        })
    };
    let a = mk("A", true, n);
    let b = mk("B", false, n);
    let mut pids = a.join().unwrap_or_default();
    pids.extend(b.join().unwrap_or_default());
    out.push(json!({"e":"hresult","ok":pids.len() == 5 * n,"panicked":false}).to_string());
    stage_reports(out, &pids);
}

// ------------------------------------------------------------------ capture() beside a thread that keeps launching
/// The calling thread runs pipelines through capture() while another thread keeps starting unrelated, longer-living
/// programs (the kernel picks the interleavings).  A capture must return once its own commands are gone: it never has
/// to wait for somebody else's process.  Reported: the longest capture.
fn run_capstress(v: &Value, out: &mut Vec<String>) {
    use std::sync::atomic::{AtomicBool, Ordering};
    use std::sync::Arc;
    use subprocess::PopenConfig;
    let rounds = v["rounds"].as_u64().unwrap_or(12) as usize;
    let nst = v["n"].as_u64().unwrap_or(4) as usize;
    out.push(json!({"e":"pre","fds":fd_table()}).to_string());
    let stop = Arc::new(AtomicBool::new(false));
    let stop2 = stop.clone();
    let vch = vchild();
    let b = std::thread::spawn(move || {
        let mut held: Vec<Popen> = vec![];
        while !stop2.load(Ordering::SeqCst) {
            // (the bystanders are left alone until the end: each lives 1.5 s)
            if held.len() < 400 {
                if let Ok(p) = Popen::create(&[vch.as_str(), "@script", "s1500", "x0"], PopenConfig::default()) {
                    held.push(p);
                }
            }
            std::thread::sleep(std::time::Duration::from_micros(300));
        }
        for mut q in held.drain(..) {
            let _ = q.kill();
            let _ = q.wait();
        }
    });
    let mut max_us: u64 = 0;
    let mut ok = true;
    let data = input_lines(3);
    for _ in 0..rounds {
        let mut stages: Vec<Exec> = (0..nst)
            .map(|i| Exec::cmd(vchild()).arg("@stage").arg(format!("c{}", i)).arg("0").arg(format!("e{}", i)))
            .collect();
        let mut it = stages.drain(..);
        let mut p = it.next().unwrap() | it.next().unwrap();
        for e in it {
            p = p | e;
        }
        let t0 = std::time::Instant::now();
        let r = p.stdin(data.clone()).capture();
        let us = t0.elapsed().as_micros() as u64;
        max_us = max_us.max(us);
        ok &= r.map(|c| c.exit_status.success()).unwrap_or(false);
    }
    stop.store(true, Ordering::SeqCst);
    let _ = b.join();
    // (the stages' reports are not looked at here)
    let _ = fs::remove_dir_all(vr());
    let _ = fs::create_dir_all(vr());
    out.push(json!({"e":"hresult","ok":ok,"panicked":false,"max_us":max_us}).to_string());
}

// ------------------------------------------------------------------ two threads launching concurrently (C08)
fn run_race(v: &Value, out: &mut Vec<String>) {
    use std::sync::atomic::Ordering;
    use subprocess::PopenConfig;
    let at = v["switch_at"].as_i64().unwrap();
    fn red(k: &str) -> Redirection {
        if k == "pipe" { Redirection::Pipe } else { Redirection::None }
    }
    fn cfg_of(c: &Value) -> PopenConfig {
        PopenConfig {
            stdin: red(c[0].as_str().unwrap()),
            stdout: red(c[1].as_str().unwrap()),
            stderr: red(c[2].as_str().unwrap()),
            ..Default::default()
        }
    }
    out.push(json!({"e":"pre","fds":fd_table()}).to_string());
    slog::GATE_COUNT.store(0, Ordering::SeqCst);
    slog::GATE_GO.store(false, Ordering::SeqCst);
    slog::GATE_BDONE.store(false, Ordering::SeqCst);
    slog::resume();
    let vch = vchild();
    let vch2 = vch.clone();
    let ca = v["a"].clone();
    let cb = v["b"].clone();
    let a = std::thread::spawn(move || {
        slog::GATE_TID.store(unsafe { libc::syscall(libc::SYS_gettid) } as u32, Ordering::SeqCst);
        slog::GATE_AT.store(at, Ordering::SeqCst);
        let r = Popen::create(&[vch.as_str(), "@exit", "0", "A"], cfg_of(&ca));
        slog::GATE_AT.store(-1, Ordering::SeqCst);
        slog::GATE_GO.store(true, Ordering::SeqCst); // in case A needed fewer calls than the switch point
        r.map(|mut p| {
            let pid = p.pid();
            p.stdin.take();
            p.stdout.take();
            p.stderr.take();
            let _ = p.wait();
            pid
        })
        .ok()
        .flatten()
    });
    let b = std::thread::spawn(move || {
        while !slog::GATE_GO.load(Ordering::SeqCst) {
            unsafe { libc::usleep(100) };
        }
        let r = Popen::create(&[vch2.as_str(), "@exit", "0", "B"], cfg_of(&cb));
        // the new program image has started (create returned): its table is what it is; let A go on
        let r = r.map(|mut p| {
            let pid = p.pid();
            // wait for B's child to have reported before A resumes, so that the report shows the table at exec
            if let Some(pid) = pid {
                for _ in 0..400 {
                    if std::path::Path::new(&format!("{}/{}.json", vr(), pid)).exists() {
                        break;
                    }
                    std::thread::sleep(std::time::Duration::from_millis(2));
                }
            }
            slog::GATE_BDONE.store(true, Ordering::SeqCst);
            p.stdin.take();
            p.stdout.take();
            p.stderr.take();
            let _ = p.wait();
            pid
        });
        slog::GATE_BDONE.store(true, Ordering::SeqCst);
        r.ok().flatten()
    });
    let pa = a.join().unwrap_or(None);
    let pb = b.join().unwrap_or(None);
    slog::stop();
    let (_f, _pids) = sys_events(out);
    let mut pids = vec![];
    if let Some(p) = pb {
        pids.push(p);
    }
    if let Some(p) = pa {
        pids.push(p);
    }
    out.push(json!({"e":"hresult","ok":pa.is_some() && pb.is_some(),"panicked":false}).to_string());
    stage_reports(out, &pids);
}

fn run_one(v: &Value, out: &mut Vec<String>) {
    // "closed_std": the parent runs with some of its standard descriptors closed
    let closed: Vec<(i32, i32)> = v["closed_std"]
        .as_array()
        .map(|l| {
            l.iter()
                .map(|x| {
                    let fd = x.as_i64().unwrap() as i32;
                    let keep = unsafe { simk::raw::fcntl(fd, libc::F_DUPFD_CLOEXEC, 100) };
                    unsafe { simk::raw::close(fd) };
                    (fd, keep)
                })
                .collect()
        })
        .unwrap_or_default();
    run_one_body(v, out);
    for (fd, keep) in closed {
        unsafe {
            simk::raw::dup2(keep, fd);
            simk::raw::close(keep);
        }
    }
}

fn run_one_body(v: &Value, out: &mut Vec<String>) {
    let _ = fs::create_dir_all(tmpd());
    let kind = v["kind"].as_str().unwrap();
    out.push(json!({"e":"reset","id":v["id"],"kind":kind,"cfg":v,"base":fd_table()}).to_string());
    slog::reset();
    watchdog_arm();
    match kind {
        "pipeline" => {
            // "mask": signals blocked in the calling thread while the pipeline is built and run
            let mut m: u64 = 0;
            for s in v["mask"].as_array().map(|l| l.as_slice()).unwrap_or(&[]) {
                m |= 1u64 << (s.as_i64().unwrap() - 1);
            }
            let mut old: u64 = 0;
            if m != 0 {
                unsafe { libc::syscall(libc::SYS_rt_sigprocmask, libc::SIG_BLOCK, &m as *const u64, &mut old as *mut u64, 8usize) };
            }
            run_pipeline(v, out);
            if m != 0 {
                unsafe { libc::syscall(libc::SYS_rt_sigprocmask, libc::SIG_SETMASK, &old as *const u64, std::ptr::null_mut::<u64>(), 8usize) };
            }
        }
        "handle" => run_handle(v, out),
        "stress" => run_stress(v, out),
        "capstress" => run_capstress(v, out),
        "builder" => run_builder(v, out),
        "race" => run_race(v, out),
        x => panic!("bad kind {}", x),
    }
    for l in watchdog_disarm() {
        out.push(l);
    }
    let ch = children_state();
    if ch != "none" {
        kill_all_children();
    }
    out.push(json!({"e":"post","fds":fd_table(),"children":ch}).to_string());
    out.push(json!({"e":"end"}).to_string());
}

fn main() {
    let args: Vec<String> = std::env::args().collect();
    slog::init();
    slog::install();
    begin_run();
    let mut outf = std::io::BufWriter::new(File::create(&args[2]).unwrap());
    let mut n = 0;
    let mut hangs = 0;
    for line in BufReader::new(File::open(&args[1]).unwrap()).lines() {
        let line = line.unwrap();
        if line.trim().is_empty() {
            continue;
        }
        let v: Value = serde_json::from_str(&line).unwrap();
        let mut lines = vec![];
        if hangs >= 4 {
            // enough hangs seen; do not spend the watchdog interval on every remaining scenario
            continue;
        }
        run_one(&v, &mut lines);
        if lines.iter().any(|l| l.contains("\"e\":\"watchdog\"")) {
            hangs += 1;
        }
        n += 1;
        for l in lines {
            outf.write_all(l.as_bytes()).unwrap();
            outf.write_all(b"\n").unwrap();
        }
    }
    outf.flush().unwrap();
    end_run();
    let summary = format!("api_replay: {} scenarios, interposed calls seen: {}", n, simk::hooks::SEEN.load(std::sync::atomic::Ordering::Relaxed));
    let _ = fs::write(format!("{}.summary", &args[2]), &summary);
    eprintln!("{}", summary);
    let _ = (SeekFrom::Start(0), |f: &mut File| f.seek(SeekFrom::Start(0)));
}
