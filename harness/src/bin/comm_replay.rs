//! Drives the real `Communicator::read` over the simulated kernel along scheduler decisions and
//! records every event as NDJSON for validation against CommTrace.tla.
//!
//! usage: comm_replay <scenarios.ndjson> <trace-out.ndjson> [--seed N]
use serde_json::{json, Value};
use simk::csim::{self, Chooser, Scenario, Sim};
use simk::units::*;
use std::fs::File;
use std::io::{BufRead, BufReader, Write};
use std::os::unix::io::FromRawFd;
use std::panic::{catch_unwind, AssertUnwindSafe};
use std::time::Duration;
use subprocess::{Popen, PopenConfig};

simk::define_interposers!();

static mut EPOCH: u64 = 1_000_000_000_000; // virtual clock base; only ever grows

static mut EVENTS: Option<std::collections::VecDeque<csim::SEv>> = None;

fn run_one(host: &mut Popen, sc: &Scenario, script: Vec<u32>, rng: Option<Rng>, out: &mut Vec<String>) -> (Vec<u32>, Vec<u32>) {
    let epoch = unsafe { EPOCH };
    let mut ch = Chooser::new(script, rng);
    ch.events = unsafe { (*std::ptr::addr_of_mut!(EVENTS)).take() };
    let mut sim = Box::new(Sim::new(sc.clone(), ch, epoch));
    let fds = sim.open_pipes();
    unsafe { csim::SIM = Some(sim) };
    let sim = csim::sim().unwrap();

    host.stdin = fds[IN].map(|fd| unsafe { File::from_raw_fd(fd) });
    host.stdout = fds[OUT].map(|fd| unsafe { File::from_raw_fd(fd) });
    host.stderr = fds[ERR].map(|fd| unsafe { File::from_raw_fd(fd) });
    let input = if sc.piped[IN] { Some(sim.sbytes(IN, 1, sc.input_units)) } else { None };
    let mut comm = Some(host.communicate_start(input));
    let mut eff_limit: Option<usize> = None;
    let mut eff_tlim: Option<u64> = None;
    for call in &sc.calls {
        let mut c = comm.take().unwrap();
        if let Some(l) = call.limit {
            // (limits "as good as none": the byte count saturates, the trace carries a number TLC can hold)
            c = c.limit_size(l.saturating_mul(sc.unit));
            eff_limit = Some(l.min(1 << 30));
        }
        if let Some(t) = call.tlim {
            c = c.limit_time(Duration::from_nanos(t));
            eff_tlim = Some(t);
        }
        sim.before_call();
        sim.deadline = eff_tlim.map(|t| sim.now + t);
        sim.log(json!({"e":"call","limit":eff_limit.map(|x| x as i64).unwrap_or(-1),
            "tl": eff_tlim.map(|t| json!([t / 1_000_000_000, t % 1_000_000_000])).unwrap_or(json!([-1, 0])),
            "now": sim.now_pair()}));
        for v in sim.read_this_call.iter_mut() {
            v.clear();
        }
        let mut text_ok = true;
        ALLOC_TRIPPED.store(false, std::sync::atomic::Ordering::SeqCst);
        ALLOC_ARM.store(sc.alloc_fail as i64, std::sync::atomic::Ordering::SeqCst);
        let r = if sc.text {
            // the text-returning variant: it must equal the lossy UTF-8 decoding of the bytes the kernel handed
            // over in this call; the ids logged are those bytes (what read() would have returned)
            let r = catch_unwind(AssertUnwindSafe(|| c.read_string()));
            match r {
                Ok(Ok((o, e))) => {
                    let exp = |s: usize| String::from_utf8_lossy(&sim.read_this_call[s]).into_owned();
                    text_ok = o.as_ref().map_or(true, |x| *x == exp(OUT)) && e.as_ref().map_or(true, |x| *x == exp(ERR));
                    Ok(Ok((o.map(|_| sim.read_this_call[OUT].clone()), e.map(|_| sim.read_this_call[ERR].clone()))))
                }
                Ok(Err(ce)) => Ok(Err(ce)),
                Err(p) => Err(p),
            }
        } else {
            catch_unwind(AssertUnwindSafe(|| c.read()))
        };
        ALLOC_ARM.store(0, std::sync::atomic::Ordering::SeqCst);
        let unit = sc.unit;
        let dec = |v: &Option<Vec<u8>>| v.as_ref().map(|b| json!(decode(b, unit))).unwrap_or(json!([]));
        match r {
            Ok(Ok((o, e))) => {
                sim.log(json!({"e":"ret","kind":"ok","ho":o.is_some(),"he":e.is_some(),"out":dec(&o),"err":dec(&e),"now":sim.now_pair(),"text_ok":text_ok}));
            }
            Ok(Err(ce)) => {
                let kind = if ce.error.kind() == std::io::ErrorKind::TimedOut && ce.error.raw_os_error().is_none() {
                    "timedout"
                } else {
                    "oserr"
                };
                sim.log(json!({"e":"ret","kind":kind,"errno":ce.error.raw_os_error().unwrap_or(0),
                    "ho":ce.capture.0.is_some(),"he":ce.capture.1.is_some(),
                    "out":dec(&ce.capture.0),"err":dec(&ce.capture.1),"now":sim.now_pair(),"text_ok":true}));
            }
            Err(_) => {
                sim.log(json!({"e":"ret","kind":"panic","ho":false,"he":false,"out":[],"err":[],"now":sim.now_pair(),"text_ok":true}));
                comm = None;
                break;
            }
        }
        comm = Some(c);
        if sim.dead {
            break;
        }
    }
    drop(comm);
    // anything the library forgot to close is closed by the harness (logged as h_close)
    for s in sim.any_parent_end_open() {
        sim.log(json!({"e":"h_leftopen","s":SNAME[s]}));
        sim.sys_close(s);
    }
    sim.drain_child();
    let taken = sim.ch.taken.clone();
    let width = sim.ch.width.clone();
    sim.log(json!({"e":"end","choices":taken,"unrep":sim.unrepresentable}));
    // Every scenario gets a fresh Communicator, so the virtual clock may restart: letting it accumulate the
    // 1000-day scenarios wrapped the u64 nanosecond counter after a few thousand runs (seen as a spurious
    // C04_bounded at the thorough tier: the library saw time jump backwards).
    unsafe {
        EPOCH = 1_000_000_000_000 + (EPOCH + 1_000_000_000) % 1_000_000_000_000;
    }
    out.append(&mut sim.trace);
    unsafe { csim::SIM = None };
    (taken, width)
}

// ---- CPU-spin watchdog -------------------------------------------------------------------
// A library loop that no longer issues any system call (e.g. a busy loop on a stream at EOF that
// skips poll) cannot be seen by the simulated kernel.  A CPU-time timer (ITIMER_VIRTUAL, so machine
// load does not matter) fires every 0.3 s of *consumed CPU*; if no interposed call happened in
// between, the exchange is recorded as `cpu_spin`, everything recorded so far is written out and the
// process exits with status 3 -- the driver resumes after the offending scenario.
static mut OUT_FD: i32 = -1;
static mut LAST_SEEN: usize = usize::MAX;
static mut CUR_LINE: usize = 0;
static mut PENDING: Vec<String> = Vec::new();

extern "C" fn on_vtalrm(_sig: i32) {
    unsafe {
        let seen = simk::hooks::SEEN.load(std::sync::atomic::Ordering::Relaxed);
        if seen != LAST_SEEN {
            LAST_SEEN = seen;
            return;
        }
        let mut buf = String::new();
        for l in (*std::ptr::addr_of!(PENDING)).iter() {
            buf.push_str(l);
            buf.push('\n');
        }
        if let Some(sim) = csim::sim() {
            for l in sim.trace.iter() {
                buf.push_str(l);
                buf.push('\n');
            }
            buf.push_str("{\"e\":\"cpu_spin\"}\n");
            buf.push_str(&json!({"e":"end","choices":sim.ch.taken,"unrep":sim.unrepresentable}).to_string());
            buf.push('\n');
        }
        simk::raw::write(OUT_FD, buf.as_ptr() as *const _, buf.len());
        let msg = format!("comm_replay: CPU spin in scenario line {}\nRESUME {}\n", CUR_LINE, CUR_LINE + 1);
        simk::raw::write(2, msg.as_ptr() as *const _, msg.len());
        simk::raw::exit_group(3);
    }
}

// The library brought the whole process down (abort(): an allocation it asked for cannot be had, a double panic...).
// That is an outcome of the exchange like a panic: record it, write out what there is, and let the driver resume
// after the offending scenario.
extern "C" fn on_abort(_sig: i32) {
    unsafe {
        let mut buf = String::new();
        for l in (*std::ptr::addr_of!(PENDING)).iter() {
            buf.push_str(l);
            buf.push('\n');
        }
        if let Some(sim) = csim::sim() {
            for l in sim.trace.iter() {
                buf.push_str(l);
                buf.push('\n');
            }
            // (an abort because memory was refused is what a Rust program does when memory is short: kind "oom")
            let kind = if ALLOC_TRIPPED.load(std::sync::atomic::Ordering::SeqCst) { "oom" } else { "panic" };
            buf.push_str(&json!({"e":"ret","kind":kind,"ho":false,"out":[],"he":false,"err":[],"text_ok":true,
                "now":sim.now_pair(),"aborted":true}).to_string());
            buf.push('\n');
            buf.push_str(&json!({"e":"end","choices":sim.ch.taken,"unrep":sim.unrepresentable}).to_string());
            buf.push('\n');
        }
        simk::raw::write(OUT_FD, buf.as_ptr() as *const _, buf.len());
        let msg = format!("comm_replay: the library aborted the process in scenario line {}\nRESUME {}\n", CUR_LINE, CUR_LINE + 1);
        simk::raw::write(2, msg.as_ptr() as *const _, msg.len());
        simk::raw::exit_group(3);
    }
}

// ---- allocation failure ------------------------------------------------------------------
// "alloc_fail": k -- the k-th allocation (or growth) of a byte buffer of 8 KiB or more that the LIBRARY asks for during a
// read fails, once (memory is short).  Byte buffers: alignment 1; the library: not while the simulated kernel runs.
struct FailAlloc;
static ALLOC_ARM: std::sync::atomic::AtomicI64 = std::sync::atomic::AtomicI64::new(0);
static ALLOC_TRIPPED: std::sync::atomic::AtomicBool = std::sync::atomic::AtomicBool::new(false);
fn alloc_refused(size: usize, align: usize) -> bool {
    use std::sync::atomic::Ordering::SeqCst;
    if align != 1 || size < 8192 || ALLOC_ARM.load(SeqCst) <= 0 || csim::IN_SIM.load(SeqCst) {
        return false;
    }
    if ALLOC_ARM.fetch_sub(1, SeqCst) == 1 {
        ALLOC_TRIPPED.store(true, SeqCst);
        return true;
    }
    false
}
unsafe impl std::alloc::GlobalAlloc for FailAlloc {
    unsafe fn alloc(&self, l: std::alloc::Layout) -> *mut u8 {
        if alloc_refused(l.size(), l.align()) {
            return std::ptr::null_mut();
        }
        std::alloc::System.alloc(l)
    }
    unsafe fn dealloc(&self, p: *mut u8, l: std::alloc::Layout) {
        std::alloc::System.dealloc(p, l)
    }
    unsafe fn realloc(&self, p: *mut u8, l: std::alloc::Layout, n: usize) -> *mut u8 {
        if alloc_refused(n, l.align()) {
            return std::ptr::null_mut();
        }
        std::alloc::System.realloc(p, l, n)
    }
}
#[global_allocator]
static GLOBAL: FailAlloc = FailAlloc;

fn main() {
    let args: Vec<String> = std::env::args().collect();
    let scen_path = &args[1];
    let out_path = &args[2];
    let mut seed: u64 = 1;
    let mut start_line = 0usize;
    let mut i = 3;
    while i < args.len() {
        if args[i] == "--seed" {
            seed = args[i + 1].parse().unwrap();
            i += 1;
        } else if args[i] == "--start-line" {
            start_line = args[i + 1].parse().unwrap();
            i += 1;
        }
        i += 1;
    }
    unsafe {
        libc::signal(libc::SIGVTALRM, on_vtalrm as usize);
        libc::signal(libc::SIGABRT, on_abort as usize);
        let tv = libc::itimerval {
            it_interval: libc::timeval { tv_sec: 0, tv_usec: 300_000 },
            it_value: libc::timeval { tv_sec: 0, tv_usec: 300_000 },
        };
        libc::setitimer(libc::ITIMER_VIRTUAL, &tv, std::ptr::null_mut());
    }
    // a finished real child gives us a Popen whose public stream fields we overwrite
    let mut host = Popen::create(&["true"], PopenConfig::default()).expect("spawn true");
    host.wait().unwrap();
    csim::install();

    let mut outf = std::fs::OpenOptions::new().create(true).append(start_line > 0).write(true)
        .truncate(start_line == 0).open(out_path).unwrap();
    unsafe {
        use std::os::unix::io::AsRawFd;
        OUT_FD = outf.as_raw_fd();
    }
    let mut nruns = 0usize;
    for (li, line) in BufReader::new(File::open(scen_path).unwrap()).lines().enumerate() {
        let line = line.unwrap();
        if line.trim().is_empty() || li < start_line {
            continue;
        }
        unsafe { CUR_LINE = li };
        let v: Value = serde_json::from_str(&line).unwrap();
        let mut sc = Scenario::from_json(&v);
        let base_id = sc.id.clone();
        let lines: &mut Vec<String> = unsafe { &mut *std::ptr::addr_of_mut!(PENDING) };
        lines.clear();
        if let Some(evs) = v.get("events").and_then(|s| s.as_array()) {
            // a behaviour generated by TLC: environment steps around the points where system calls return
            let q: std::collections::VecDeque<csim::SEv> = evs.iter().map(|e| match e.as_str().unwrap_or("P") {
                "C" => csim::SEv::C,
                "P" => csim::SEv::P,
                "K" => csim::SEv::K,
                t => csim::SEv::T(t[1..].parse().unwrap_or(1_000_000)),
            }).collect();
            unsafe { EVENTS = Some(q) };
            run_one(&mut host, &sc, vec![], None, lines);
            nruns += 1;
        } else if let Some(script) = v.get("script").and_then(|s| s.as_array()) {
            let script: Vec<u32> = script.iter().map(|x| x.as_u64().unwrap() as u32).collect();
            run_one(&mut host, &sc, script, None, lines);
            nruns += 1;
        } else if let Some(maxruns) = v.get("dfs").and_then(|x| x.as_u64()) {
            // systematic enumeration of every scheduler decision sequence (stateless search)
            let mut prefix: Vec<u32> = vec![];
            let mut n = 0u64;
            loop {
                sc.id = format!("{}#d{}", base_id, n);
                let (taken, width) = run_one(&mut host, &sc, prefix.clone(), None, lines);
                n += 1;
                nruns += 1;
                // next: bump the last decision that still has an unexplored alternative
                let mut k = taken.len();
                let mut next = None;
                while k > 0 {
                    k -= 1;
                    if taken[k] + 1 < width[k] {
                        let mut p = taken[..k].to_vec();
                        p.push(taken[k] + 1);
                        next = Some(p);
                        break;
                    }
                }
                match next {
                    Some(p) if n < maxruns => prefix = p,
                    Some(_) => {
                        lines.push(json!({"e":"note","dfs_truncated":base_id}).to_string());
                        break;
                    }
                    None => {
                        lines.push(json!({"e":"note","dfs_complete":base_id,"runs":n}).to_string());
                        break;
                    }
                }
            }
        } else {
            let runs = v.get("runs").and_then(|x| x.as_u64()).unwrap_or(1);
            for r in 0..runs {
                sc.id = format!("{}#r{}", base_id, r);
                let rng = Rng::new(seed ^ ((li as u64) << 20) ^ r.wrapping_mul(7919));
                run_one(&mut host, &sc, vec![], Some(rng), lines);
                nruns += 1;
            }
        }
        let mut buf = String::new();
        for l in lines.iter() {
            buf.push_str(l);
            buf.push('\n');
        }
        outf.write_all(buf.as_bytes()).unwrap();
    }
    outf.flush().unwrap();
    eprintln!("comm_replay: {} runs, interposed calls seen: {}", nruns, simk::hooks::SEEN.load(std::sync::atomic::Ordering::Relaxed));
}
