//! The reporting / scripted child used by the real-kernel checks.  It has NO interposers.
//! Whatever its argv is, it first writes what it observes about itself (descriptor table, argv,
//! environ, cwd, ids, signal state, executable path) to /verif/work/vr/<pid>.json, then behaves
//! according to argv[1]:
//!   (anything else)          exit 0
//!   @exit <code>             exit with that code
//!   @stage <tag> <code> <e>  pipeline stage: copy stdin lines to stdout with <tag> appended, write line <e> to stderr
//!   @script <op>...          I/O script: r<N> read N bytes (or to EOF if fewer), R read to EOF, wo<N>/we<N> write N bytes,
//!                            ci/co/ce close, s<ms> sleep, x<code> exit, k<sig> raise signal
//!   @pscript <op>...         the same with position-dependent stream content (simk::units::pat) that is verified
//!                            on stdin, and monotonic-clock stamps of what happened when (notes in <pid>.log)
use std::fs;
use std::io::{Read, Write};
use std::os::unix::ffi::OsStrExt;

/// reports go to /verif/work/vr/<session id>: a harness run is its own session, so concurrent runs
/// (and their descendants, whatever argv/environment they were given) never share a directory
fn report_dir() -> String {
    format!("/verif/work/vr/{}", unsafe { libc::getsid(0) })
}

// Signal state must be sampled before the Rust runtime starts (it sets SIGPIPE to "ignore"):
// an .init_array constructor runs before std's start-up code.
static mut EARLY_IGN: u64 = 0;
static mut EARLY_BLK: u64 = 0;
// which of the descriptors 0-2 were open when the program was started: the Rust runtime opens /dev/null on the
// closed ones before `main`, which must not be mistaken for what the parent handed over
static mut EARLY_CLOSED: u8 = 0;
extern "C" fn early() {
    unsafe {
        for fd in 0..3 {
            if libc::fcntl(fd, libc::F_GETFD) == -1 {
                EARLY_CLOSED |= 1 << fd;
            }
        }
        let mut blk: u64 = 0;
        libc::syscall(libc::SYS_rt_sigprocmask, libc::SIG_BLOCK, std::ptr::null::<u64>(), &mut blk as *mut u64, 8usize);
        EARLY_BLK = blk;
        let mut ign: u64 = 0;
        for sig in 1..65 {
            let mut old: libc::sigaction = std::mem::zeroed();
            if libc::sigaction(sig, std::ptr::null(), &mut old) == 0 && old.sa_sigaction == libc::SIG_IGN {
                ign |= 1u64 << (sig - 1);
            }
        }
        EARLY_IGN = ign;
    }
}
#[used]
#[link_section = ".init_array"]
static CTOR: extern "C" fn() = early;

fn hex(b: &[u8]) -> String {
    let mut s = String::with_capacity(b.len() * 2);
    for x in b {
        s.push_str(&format!("{:02x}", x));
    }
    s
}

fn status_field(name: &str) -> String {
    let st = fs::read_to_string("/proc/self/status").unwrap_or_default();
    for l in st.lines() {
        if let Some(r) = l.strip_prefix(name) {
            return r.trim().trim_start_matches(':').trim().to_string();
        }
    }
    String::new()
}

fn report() {
    let pid = std::process::id();
    let mut fds = vec![];
    if let Ok(rd) = fs::read_dir("/proc/self/fd") {
        let mut names: Vec<i32> = rd.filter_map(|e| e.ok()?.file_name().to_str()?.parse().ok()).collect();
        names.sort();
        for fd in names {
            let target = match fs::read_link(format!("/proc/self/fd/{}", fd)) {
                Ok(t) => t.to_string_lossy().into_owned(),
                Err(_) => continue,
            };
            if target.starts_with("/proc/") && target.ends_with("/fd") {
                continue; // the directory handle used for this listing
            }
            if fd < 3 && unsafe { EARLY_CLOSED } & (1 << fd) != 0 {
                continue; // closed when we were started; what sits there now is the runtime's /dev/null
            }
            let mut st: libc::stat = unsafe { std::mem::zeroed() };
            let ok = unsafe { libc::fstat(fd, &mut st) } == 0;
            let fdflags = unsafe { libc::fcntl(fd, libc::F_GETFD) };
            let info = fs::read_to_string(format!("/proc/self/fdinfo/{}", fd)).unwrap_or_default();
            let mut pos = 0i64;
            let mut flags = 0i64;
            for l in info.lines() {
                if let Some(v) = l.strip_prefix("pos:") {
                    pos = v.trim().parse().unwrap_or(0);
                }
                if let Some(v) = l.strip_prefix("flags:") {
                    flags = i64::from_str_radix(v.trim(), 8).unwrap_or(0);
                }
            }
            fds.push(format!(
                "{{\"fd\":{},\"target\":\"{}\",\"ino\":{},\"dev\":{},\"acc\":{},\"pos\":{},\"cloexec\":{}}}",
                fd,
                target.replace('\\', "\\\\").replace('"', "\\\""),
                if ok { st.st_ino as i64 } else { -1 },
                if ok { st.st_dev as i64 } else { -1 },
                flags & 3,
                pos,
                fdflags & libc::FD_CLOEXEC != 0
            ));
        }
    }
    let argv: Vec<String> = std::env::args_os().map(|a| format!("\"{}\"", hex(a.as_bytes()))).collect();
    let env: Vec<String> = std::env::vars_os()
        .map(|(k, v)| {
            let mut kv = k.as_bytes().to_vec();
            kv.push(b'=');
            kv.extend_from_slice(v.as_bytes());
            format!("\"{}\"", hex(&kv))
        })
        .collect();
    // environ order as the kernel handed it over
    let env_raw: Vec<String> = {
        match fs::read("/proc/self/environ") {
            Ok(raw) => raw.split(|b| *b == 0).filter(|s| !s.is_empty()).map(|s| format!("\"{}\"", hex(s))).collect(),
            // (not readable when the ids of the process changed at exec: it is not dumpable then) -- the C runtime's
            // `environ` still is the array the kernel handed over, nothing in this program edits it
            Err(_) => unsafe {
                extern "C" {
                    static environ: *const *const libc::c_char;
                }
                let mut out = vec![];
                let mut p = environ;
                while !p.is_null() && !(*p).is_null() {
                    let e = std::ffi::CStr::from_ptr(*p).to_bytes();
                    if !e.is_empty() {
                        out.push(format!("\"{}\"", hex(e)));
                    }
                    p = p.add(1);
                }
                out
            },
        }
    };
    let cwd = std::env::current_dir().map(|p| hex(p.as_os_str().as_bytes())).unwrap_or_default();
    let exe = fs::read_link("/proc/self/exe").map(|p| hex(p.as_os_str().as_bytes())).unwrap_or_default();
    let (mut ru, mut eu, mut su, mut rg, mut eg, mut sg) = (0, 0, 0, 0, 0, 0);
    unsafe {
        libc::getresuid(&mut ru, &mut eu, &mut su);
        libc::getresgid(&mut rg, &mut eg, &mut sg);
    }
    let pgid = unsafe { libc::getpgid(0) };
    let ppid = unsafe { libc::getppid() };
    let js = format!(
        "{{\"pid\":{},\"ppid\":{},\"exe\":\"{}\",\"argv\":[{}],\"env_unordered\":[{}],\"env\":[{}],\"cwd\":\"{}\",\"ruid\":{},\"euid\":{},\"suid\":{},\"rgid\":{},\"egid\":{},\"sgid\":{},\"pgid\":{},\"sigblk\":\"{}\",\"sigign\":\"{}\",\"fds\":[{}]}}",
        pid, ppid, exe, argv.join(","), env.join(","), env_raw.join(","), cwd, ru, eu, su, rg, eg, sg, pgid,
        format!("{:016x}", unsafe { EARLY_BLK }), format!("{:016x}", unsafe { EARLY_IGN }), fds.join(",")
    );
    let _ = fs::create_dir_all(report_dir());
    let tmp = format!("{}/.{}.tmp", report_dir(), pid);
    let fin = format!("{}/{}.json", report_dir(), pid);
    if fs::write(&tmp, js).is_ok() {
        let _ = fs::rename(&tmp, &fin);
    }
}

fn note(kind: &str, val: &str) {
    // append an observation (e.g. what was received, when EOF was seen) to <pid>.log
    let p = format!("{}/{}.log", report_dir(), std::process::id());
    if let Ok(mut f) = fs::OpenOptions::new().create(true).append(true).open(p) {
        let _ = writeln!(f, "{} {}", kind, val);
    }
}

fn main() {
    report();
    let args: Vec<Vec<u8>> = std::env::args_os().map(|a| a.as_bytes().to_vec()).collect();
    let mode = args.get(1).map(|v| v.as_slice()).unwrap_or(b"");
    let arg = |i: usize| -> String { args.get(i).map(|v| String::from_utf8_lossy(v).into_owned()).unwrap_or_default() };
    match mode {
        b"@exit" => std::process::exit(arg(2).parse().unwrap_or(0)),
        b"@stage" => {
            let tag = arg(2);
            let code: i32 = arg(3).parse().unwrap_or(0);
            let eline = arg(4);
            if !eline.is_empty() {
                // one write() call: lines of different stages must not interleave inside a line
                let line = format!("{}\n", eline);
                unsafe { libc::write(2, line.as_ptr() as *const _, line.len()) };
            }
            let mut inp = Vec::new();
            let _ = std::io::stdin().read_to_end(&mut inp);
            let mut out = Vec::new();
            for line in inp.split(|b| *b == b'\n') {
                if line.is_empty() {
                    continue;
                }
                out.extend_from_slice(line);
                out.extend_from_slice(tag.as_bytes());
                out.push(b'\n');
            }
            let so = std::io::stdout();
            let mut so = so.lock();
            let _ = so.write_all(&out);
            let _ = so.flush();
            std::process::exit(code);
        }
        b"@quit" => std::process::exit(0), // exits without touching its streams; argv[2] is only a tag
        b"@cat" => {
            // streaming copy stdin -> stdout (exerts back-pressure like cat); argv[2] is only a tag
            let mut buf = vec![0u8; 4096];
            loop {
                let n = unsafe { libc::read(0, buf.as_mut_ptr() as *mut _, buf.len()) };
                if n <= 0 {
                    break;
                }
                let mut off = 0usize;
                while off < n as usize {
                    let w = unsafe { libc::write(1, buf[off..].as_ptr() as *const _, n as usize - off) };
                    if w <= 0 {
                        std::process::exit(1);
                    }
                    off += w as usize;
                }
            }
            std::process::exit(0);
        }
        b"@stubborn" => {
            // keeps writing to stdout whatever write() says (a program that ignores write errors): only a signal ends it
            // (the Rust runtime ignores SIGPIPE before `main`: put back what this program was started with)
            if unsafe { EARLY_IGN } & (1u64 << (libc::SIGPIPE - 1)) == 0 {
                unsafe { libc::signal(libc::SIGPIPE, libc::SIG_DFL) };
            }
            let chunk = vec![b's'; 4096];
            loop {
                let w = unsafe { libc::write(1, chunk.as_ptr() as *const _, chunk.len()) };
                if w <= 0 {
                    std::thread::sleep(std::time::Duration::from_millis(1));
                }
            }
        }
        b"@gen" => {
            // write argv[3] bytes to stdout, then exit; argv[2] is only a tag
            let mut left: usize = arg(3).parse().unwrap_or(0);
            let chunk = vec![b'g'; 4096];
            while left > 0 {
                let k = left.min(chunk.len());
                let w = unsafe { libc::write(1, chunk.as_ptr() as *const _, k) };
                if w <= 0 {
                    std::process::exit(1);
                }
                left -= w as usize;
            }
            std::process::exit(0);
        }
        b"@pscript" => {
            let now = || -> u64 {
                let mut ts: libc::timespec = unsafe { std::mem::zeroed() };
                unsafe { libc::clock_gettime(libc::CLOCK_MONOTONIC, &mut ts) };
                ts.tv_sec as u64 * 1_000_000_000 + ts.tv_nsec as u64
            };
            let mut received: u64 = 0;
            let mut recv_ok = true;
            let mut wrote = [0u64; 3];
            let mut t_last: u64 = 0;
            let mut eof_seen = false;
            // one read of up to `want` bytes; returns false at end-of-file / error
            let mut do_read = |want: usize, received: &mut u64, recv_ok: &mut bool, t_last: &mut u64, eof_seen: &mut bool| -> bool {
                let mut buf = vec![0u8; want];
                let t0 = now();
                let n = unsafe { libc::read(0, buf.as_mut_ptr() as *mut _, want) };
                if n < 0 {
                    // (a read that FAILS -- the script closed its own stdin before -- is not end-of-file: the child did not
                    // read its input to the end)
                    return false;
                }
                if n == 0 {
                    if !*eof_seen {
                        *eof_seen = true;
                        let t1 = now();
                        // how long this read waited for end-of-file after the last byte had arrived
                        let from = if *t_last > t0 { *t_last } else { t0 };
                        note("eof", &format!("{} {} {}", t1, t1.saturating_sub(from), n));
                    }
                    return false;
                }
                for j in 0..n as usize {
                    if buf[j] != simk::units::pat(0, *received + j as u64) {
                        *recv_ok = false;
                    }
                }
                *received += n as u64;
                *t_last = now();
                true
            };
            for op in args.iter().skip(2) {
                let op = String::from_utf8_lossy(op).into_owned();
                let (head, num) = {
                    let idx = op.find(|c: char| c.is_ascii_digit()).unwrap_or(op.len());
                    (op[..idx].to_string(), op[idx..].parse::<u64>().unwrap_or(0))
                };
                match head.as_str() {
                    "r" => {
                        // read exactly num bytes (fewer at end-of-file)
                        let mut left = num as usize;
                        while left > 0 {
                            let before = received;
                            if !do_read(left.min(65536), &mut received, &mut recv_ok, &mut t_last, &mut eof_seen) {
                                break;
                            }
                            left -= (received - before) as usize;
                        }
                    }
                    "q" => {
                        // one read of at most num bytes
                        do_read(num as usize, &mut received, &mut recv_ok, &mut t_last, &mut eof_seen);
                    }
                    "R" => while do_read(65536, &mut received, &mut recv_ok, &mut t_last, &mut eof_seen) {},
                    "o" | "e" => {
                        let fd = if head == "o" { 1 } else { 2 };
                        let mut left = num;
                        let mut buf = vec![0u8; 65536];
                        while left > 0 {
                            let k = left.min(65536) as usize;
                            for j in 0..k {
                                buf[j] = simk::units::pat(fd as usize, wrote[fd as usize] + j as u64);
                            }
                            let n = unsafe { libc::write(fd, buf.as_ptr() as *const _, k) };
                            if n <= 0 {
                                note("write_failed", &format!("{}", fd));
                                left = 0;
                                break;
                            }
                            wrote[fd as usize] += n as u64;
                            left -= n as u64;
                        }
                        let _ = left;
                    }
                    "P" => {
                        // a forked helper writes num bytes to stderr concurrently with whatever follows
                        let off = wrote[2];
                        wrote[2] += num;
                        let pid = unsafe { libc::fork() };
                        if pid == 0 {
                            let mut buf = vec![0u8; 65536];
                            let mut done = 0u64;
                            while done < num {
                                let k = (num - done).min(65536) as usize;
                                for j in 0..k {
                                    buf[j] = simk::units::pat(2, off + done + j as u64);
                                }
                                let n = unsafe { libc::write(2, buf.as_ptr() as *const _, k) };
                                if n <= 0 {
                                    break;
                                }
                                done += n as u64;
                            }
                            unsafe { libc::_exit(0) };
                        }
                    }
                    "ci" | "co" | "ce" => {
                        let fd = match head.as_str() {
                            "ci" => 0,
                            "co" => 1,
                            _ => 2,
                        };
                        note("closing", &format!("{} {} {}", fd, now(), wrote[fd as usize]));
                        unsafe {
                            libc::close(fd);
                        }
                    }
                    "s" => std::thread::sleep(std::time::Duration::from_millis(num)),
                    "x" => break,
                    _ => {}
                }
            }
            note("final", &format!("{} {} {} {} {} {}", now(), received, recv_ok, wrote[1], wrote[2], eof_seen));
            std::process::exit(0);
        }
        b"@script" => {
            let mut received: u64 = 0;
            for op in args.iter().skip(2) {
                let op = String::from_utf8_lossy(op).into_owned();
                let (head, num) = {
                    let idx = op.find(|c: char| c.is_ascii_digit()).unwrap_or(op.len());
                    (op[..idx].to_string(), op[idx..].parse::<u64>().unwrap_or(0))
                };
                match head.as_str() {
                    "r" => {
                        let mut buf = vec![0u8; num as usize];
                        let mut got = 0usize;
                        while got < buf.len() {
                            let n = unsafe { libc::read(0, buf[got..].as_mut_ptr() as *mut _, buf.len() - got) };
                            if n <= 0 {
                                note("eof_after", &format!("{}", received + got as u64));
                                break;
                            }
                            got += n as usize;
                        }
                        received += got as u64;
                    }
                    "R" => {
                        let mut buf = vec![0u8; 65536];
                        loop {
                            let n = unsafe { libc::read(0, buf.as_mut_ptr() as *mut _, buf.len()) };
                            if n <= 0 {
                                break;
                            }
                            received += n as u64;
                        }
                        note("eof_after", &format!("{}", received));
                    }
                    "wo" | "we" => {
                        let fd = if head == "wo" { 1 } else { 2 };
                        let chunk = vec![if fd == 1 { b'o' } else { b'e' }; 65536];
                        let mut left = num as usize;
                        while left > 0 {
                            let k = left.min(chunk.len());
                            let n = unsafe { libc::write(fd, chunk.as_ptr() as *const _, k) };
                            if n <= 0 {
                                note("write_failed", &format!("{}", fd));
                                break;
                            }
                            left -= n as usize;
                        }
                    }
                    "ci" => unsafe {
                        libc::close(0);
                    },
                    "co" => unsafe {
                        libc::close(1);
                    },
                    "ce" => unsafe {
                        libc::close(2);
                    },
                    "s" => std::thread::sleep(std::time::Duration::from_millis(num)),
                    "x" => {
                        note("received", &format!("{}", received));
                        std::process::exit(num as i32)
                    }
                    "k" => unsafe {
                        libc::raise(num as i32);
                    },
                    _ => {}
                }
            }
            note("received", &format!("{}", received));
            std::process::exit(0);
        }
        _ => std::process::exit(0),
    }
}
