//! Drives a real `Popen` through a history of API calls while the child's pid is virtual
//! (exit instant, external reaping, pid reuse and the clock come from the scenario) and records
//! every API call/return and every waitpid/kill/sleep for validation against ProcTrace.tla.
//!
//! usage: proc_replay <scenarios.ndjson> <trace-out.ndjson>
use serde_json::{json, Value};
use simk::psim::{self, tpair, PSim, Status};
use std::fs::File;
use std::io::{BufRead, BufReader, Write};
use std::panic::{catch_unwind, AssertUnwindSafe};
use std::time::Duration;
use subprocess::unix::PopenExt;
use subprocess::{ExitStatus, Popen, PopenConfig};

simk::define_interposers!();

static mut EPOCH: u64 = 2_000_000_000_000;

fn st_json(s: ExitStatus) -> Value {
    match s {
        ExitStatus::Exited(c) => json!({"k":"exited","v":c}),
        ExitStatus::Signaled(s) => json!({"k":"signaled","v":s}),
        ExitStatus::Other(x) => json!({"k":"other","v":x}),
        ExitStatus::Undetermined => json!({"k":"undetermined","v":0}),
    }
}
fn opt_json(s: Option<ExitStatus>) -> Value {
    s.map(st_json).unwrap_or(json!({"k":"none","v":0}))
}
fn err_json(e: &dyn std::fmt::Display, errno: Option<i32>) -> Value {
    json!({"k":"err","v":errno.unwrap_or(0),"msg":e.to_string()})
}

fn perrno(e: &subprocess::PopenError) -> Option<i32> {
    match e {
        subprocess::PopenError::IoError(io) => io.raw_os_error(),
        _ => None,
    }
}

fn run_one(v: &Value, out: &mut Vec<String>) {
    let detached_cfg = v["detached"].as_bool().unwrap_or(false);
    let mut cfg = PopenConfig { detached: detached_cfg, setpgid: v["setpgid"].as_bool().unwrap_or(false), ..Default::default() };
    if v["pipe_stdout"].as_bool().unwrap_or(false) {
        // the handle keeps the reading end of the child's stdout pipe; the real child (`true`) is gone at once, so that
        // pipe has hung up while the simulated child lives on -- a child that closed its stdout and keeps running
        cfg.stdout = subprocess::Redirection::Pipe;
    }
    if v["clone_cfg"].as_bool().unwrap_or(false) {
        // the configuration is a template: what is launched is a clone of it
        let c = cfg.try_clone().expect("try_clone");
        drop(cfg);
        cfg = c;
    }
    // "sigchld_ign": the application ignores SIGCHLD (the kernel reaps its children itself: nobody ever sees a status)
    let sigchld_ign = v["sigchld_ign"].as_bool().unwrap_or(false);
    if sigchld_ign {
        unsafe { libc::signal(libc::SIGCHLD, libc::SIG_IGN) };
    }
    let p = Popen::create(&["true"], cfg).expect("spawn true");
    let real_pid = p.pid().unwrap() as i32;
    let epoch = unsafe { EPOCH };
    let mut sim = Box::new(PSim::new(real_pid, epoch));
    let stat = |x: &Value| Status { exited: x["k"].as_str().unwrap() == "exited", val: x["v"].as_i64().unwrap() as i32,
        core: x["core"].as_bool().unwrap_or(false) };
    if let Some(at) = v["exit"]["at"].as_u64() {
        sim.exit_at = Some((at, stat(&v["exit"])));
    }
    sim.xreap_after = v["xreap"].as_u64();
    sim.reuse_after = v["reuse"].as_u64();
    sim.ignores_term = v["ignores_term"].as_bool().unwrap_or(false);
    sim.kill_latency = v["kill_latency"].as_u64().unwrap_or(0);
    sim.overshoot = v["overshoot"].as_u64().unwrap_or(0);
    sim.clock_step = v["clock_step"].as_u64().unwrap_or(0);
    if let Some(j) = v["rt_jump"].as_array() {
        sim.rt_jump = Some((j[0].as_u64().unwrap(), j[1].as_i64().unwrap()));
    }
    sim.sleep_slice = v["sleep_slice"].as_u64().unwrap_or(0);
    sim.sleep_eintr_left = v["sleep_eintr_max"].as_u64().unwrap_or(0) as u32;
    if let Some(l) = v["eintr_at"].as_array() {
        sim.eintr_at = l.iter().map(|x| x.as_u64().unwrap()).collect();
    }
    if let Some(sc) = v["script"].as_array() {
        sim.script = Some(sc.iter().map(|x| x.as_str().unwrap().as_bytes()[0]).collect());
        sim.script_exit = Some(stat(&v["exit"]));
    }
    sim.log(json!({"e":"reset","id":v["id"],"pid":psim::VPID,"detached":detached_cfg,
        "ignores_term": sim.ignores_term}));
    unsafe { psim::PSIM = Some(sim) };
    let sim = psim::psim().unwrap();

    // the calls are made on a thread of their own, so that a call that never returns can be abandoned.
    // "other_thread": that thread is not the one that created the handle (otherwise it passes for the creator)
    psim::STUCK.store(false, std::sync::atomic::Ordering::SeqCst);
    let (tx, rx) = std::sync::mpsc::channel();
    let v2 = v.clone();
    let as_creator = !v["other_thread"].as_bool().unwrap_or(false);
    psim::DRIVER_TID.store(-1, std::sync::atomic::Ordering::SeqCst);
    let jh = std::thread::spawn(move || {
        psim::DRIVER_TID.store(unsafe { libc::syscall(libc::SYS_gettid) } as i64, std::sync::atomic::Ordering::SeqCst);
        if as_creator {
            psim::psim().unwrap().creator_tid = unsafe { libc::syscall(libc::SYS_gettid) } as i64;
        }
        let _ = tx.send(drive_ops(&v2, p));
    });
    let mut popen: Option<Popen> = None;
    loop {
        match rx.recv_timeout(Duration::from_millis(5)) {
            Ok(r) => {
                popen = r;
                let _ = jh.join();
                break;
            }
            Err(_) => {
                if psim::STUCK.load(std::sync::atomic::Ordering::SeqCst) {
                    break; // the thread stays where it is, for good
                }
            }
        }
    }
    psim::DRIVER_TID.store(0, std::sync::atomic::Ordering::SeqCst);
    let fin = format!("{:?}", sim.st);
    let drift = sim.script_drift;
    sim.log(json!({"e":"end","st":fin,"drift":drift}));
    unsafe {
        EPOCH = 2_000_000_000_000 + (EPOCH + 1_000_000_000) % 1_000_000_000_000;
    }
    out.append(&mut sim.trace);
    if !psim::STUCK.load(std::sync::atomic::Ordering::SeqCst) {
        unsafe { psim::PSIM = None };
    } else {
        // (the abandoned thread still stands inside the old simulator: leave that one alone, the next run gets a new one)
        unsafe { std::mem::forget(psim::PSIM.take()) };
    }
    if sigchld_ign {
        unsafe { libc::signal(libc::SIGCHLD, libc::SIG_DFL) };
    }
    // dispose of the real child with raw system calls
    unsafe {
        let mut st = 0;
        simk::raw::kill(real_pid, 9);
        simk::raw::wait4(real_pid, &mut st, 0);
    }
    if let Some(mut p) = popen.take() {
        p.detach();
    }
}

fn drive_ops(v: &Value, p: Popen) -> Option<Popen> {
    {
        let sim = psim::psim().unwrap();
    let mut popen = Some(p);
        for op in v["ops"].as_array().unwrap() {
            let a = op.as_array().unwrap();
            let name = a[0].as_str().unwrap();
            sim.script_point(b'K');
            if name == "delay" {
                let d = a[1].as_u64().unwrap();
                let to = sim.now + d;
                sim.advance(to);
                sim.log(json!({"e":"delay","now":tpair(sim.now)}));
                continue;
            }
            let arg = a.get(1).and_then(|x| x.as_u64()).unwrap_or(0);
            let sarg = a.get(1).and_then(|x| x.as_i64()).unwrap_or(0);
            sim.sys_in_call = 0;
            sim.unfolded = 0;
            sim.log(json!({"e":"api","op":name,"d":tpair(arg),"n":if name == "send_signal" { sarg } else { arg as i64 },"now":tpair(sim.now)}));
            let res = catch_unwind(AssertUnwindSafe(|| {
                let p = popen.as_mut().unwrap();
                match name {
                    "poll" => opt_json(p.poll()),
                    "wait" => match p.wait() {
                        Ok(s) => st_json(s),
                        Err(e) => err_json(&e, perrno(&e)),
                    },
                    "wait_timeout" => match p.wait_timeout(Duration::from_nanos(arg)) {
                        Ok(s) => opt_json(s),
                        Err(e) => err_json(&e, perrno(&e)),
                    },
                    "pid" => match p.pid() {
                        Some(x) => json!({"k":"some","v": x as i64 - sim.real_pid as i64 + psim::VPID}),
                        None => json!({"k":"none","v":0}),
                    },
                    "exit_status" => opt_json(p.exit_status()),
                    "terminate" => match p.terminate() {
                        Ok(()) => json!({"k":"ok","v":0}),
                        Err(e) => err_json(&e, e.raw_os_error()),
                    },
                    "kill" => match p.kill() {
                        Ok(()) => json!({"k":"ok","v":0}),
                        Err(e) => err_json(&e, e.raw_os_error()),
                    },
                    "send_signal" => match p.send_signal(sarg as i32) {
                        Ok(()) => json!({"k":"ok","v":0}),
                        Err(e) => err_json(&e, e.raw_os_error()),
                    },
                    "detach" => {
                        p.detach();
                        json!({"k":"ok","v":0})
                    }
                    x => panic!("bad op {}", x),
                }
            }));
            let res = res.unwrap_or(json!({"k":"panic","v":0}));
            sim.log(json!({"e":"apiret","op":name,"res":res,"now":tpair(sim.now),"nsys":sim.sys_in_call}));
        }
        if v["drop"].as_bool().unwrap_or(true) {
            sim.script_point(b'K');
            sim.sys_in_call = 0;
            sim.log(json!({"e":"api","op":"drop","d":tpair(0),"n":0,"now":tpair(sim.now)}));
            // "drop_in_panic": the handle goes out of scope while its owner unwinds from a panic
            let in_panic = v["drop_in_panic"].as_bool().unwrap_or(false);
            let r = if in_panic {
                let hook = std::panic::take_hook();
                std::panic::set_hook(Box::new(|_| {}));
                let taken = popen.take();
                let r = catch_unwind(AssertUnwindSafe(move || {
                    let _held = taken;
                    panic!("the owner of the handle panics");
                }));
                std::panic::set_hook(hook);
                // (the panic itself is expected; what counts is whether the drop got through)
                if r.is_err() { Ok(()) } else { Err(()) }
            } else {
                catch_unwind(AssertUnwindSafe(|| drop(popen.take()))).map_err(|_| ())
            };
            let res = if r.is_ok() { json!({"k":"ok","v":0}) } else { json!({"k":"panic","v":0}) };
            sim.log(json!({"e":"apiret","op":"drop","res":res,"now":tpair(sim.now),"nsys":sim.sys_in_call}));
        }
        popen
    }
}

fn main() {
    let args: Vec<String> = std::env::args().collect();
    psim::install();
    let mut outf = std::io::BufWriter::new(File::create(&args[2]).unwrap());
    let mut n = 0;
    for line in BufReader::new(File::open(&args[1]).unwrap()).lines() {
        let line = line.unwrap();
        if line.trim().is_empty() {
            continue;
        }
        let v: Value = serde_json::from_str(&line).unwrap();
        let mut lines = vec![];
        run_one(&v, &mut lines);
        n += 1;
        for l in lines {
            outf.write_all(l.as_bytes()).unwrap();
            outf.write_all(b"\n").unwrap();
        }
    }
    outf.flush().unwrap();
    eprintln!("proc_replay: {} runs, interposed calls seen: {}", n, simk::hooks::SEEN.load(std::sync::atomic::Ordering::Relaxed));
}
