//! C19 / C20: renders commands with the real `Exec`/`Pipeline` Debug / to_cmdline_lossy code and
//! with the Windows assemble_cmdline extracted from the repository's source, and records the
//! actual output (code points / UTF-16 units) for TLC to parse back (QuoteTrace.tla).  For shell
//! cases it also asks the real `sh` what the rendered line means.
//!
//! usage: quote_replay <cases.ndjson> <trace-out.ndjson>
use serde_json::{json, Value};
use simk::rk::{begin_run, end_run, vr};
use simk::winshim;
use std::fs::{self, File};
use std::io::{BufRead, BufReader, Write};
use subprocess::{Exec, Pipeline};


fn s_of(cps: &Value) -> String {
    cps.as_array().unwrap().iter().map(|c| char::from_u32(c.as_u64().unwrap() as u32).unwrap()).collect()
}
fn cps(s: &str) -> Vec<u32> {
    s.chars().map(|c| c as u32).collect()
}
fn exec_of(argv: &Value) -> Exec {
    exec_of_how(argv, 0)
}

/// how = 0: every argument with arg(); 1: the command is shown (Debug, to_cmdline_lossy) after the first argument and
/// the others are added afterwards with args(); 2: shown after every single addition, alternating arg() / args()
fn exec_of_how(argv: &Value, how: u64) -> Exec {
    let a = argv.as_array().unwrap();
    let mut e = Exec::cmd(s_of(&a[0]));
    let words: Vec<String> = a[1..].iter().map(s_of).collect();
    match how {
        1 => {
            if let Some(w) = words.first() {
                e = e.arg(w);
            }
            let _ = format!("{:?} {}", e, e.to_cmdline_lossy());
            if words.len() > 1 {
                e = e.args(&words[1..]);
            }
        }
        2 => {
            for (i, w) in words.iter().enumerate() {
                let _ = format!("{:?} {}", e, e.to_cmdline_lossy());
                e = if i % 2 == 0 { e.args(&[w.clone()]) } else { e.arg(w) };
            }
        }
        _ => {
            for w in &words {
                e = e.arg(w);
            }
        }
    }
    e
}

fn unhex(s: &str) -> Vec<u8> {
    (0..s.len() / 2).map(|i| u8::from_str_radix(&s[2 * i..2 * i + 2], 16).unwrap()).collect()
}

fn main() {
    let args: Vec<String> = std::env::args().collect();
    let mut outf = std::io::BufWriter::new(File::create(&args[2]).unwrap());
    begin_run();
    let mut n = 0;
    for line in BufReader::new(File::open(&args[1]).unwrap()).lines() {
        let line = line.unwrap();
        if line.trim().is_empty() {
            continue;
        }
        let v: Value = serde_json::from_str(&line).unwrap();
        n += 1;
        let ev = match v["kind"].as_str().unwrap() {
            "sh" => {
                let stages = v["stages"].as_array().unwrap();
                // "odd_env": the process environment holds a variable that is not valid UTF-8 (legal on Unix)
                let odd = v["odd_env"].as_bool().unwrap_or(false);
                if odd {
                    use std::os::unix::ffi::OsStrExt;
                    std::env::set_var("VERIF_ODD_VAR", std::ffi::OsStr::from_bytes(b"caf\xe9 \xff\xfe"));
                }
                let hook = std::panic::take_hook();
                std::panic::set_hook(Box::new(|_| {}));
                let rendered = std::panic::catch_unwind(|| if stages.len() == 1 {
                    // "shown_early": the command is shown while it is still being put together
                    let mut e = exec_of_how(&stages[0], v["shown_early"].as_u64().unwrap_or(0));
                    // "env": the command carries environment settings; they are shown as NAME=value words in front
                    if let Some(l) = v["env"].as_array() {
                        for kv in l {
                            e = e.env(kv[0].as_str().unwrap(), kv[1].as_str().unwrap());
                        }
                    }
                    let o = e.to_cmdline_lossy();
                    let d = format!("{:?}", e);
                    let x = format!("Exec {{ {} }}", o);
                    (o, d, x, format!("{:#?}", e))
                } else {
                    let how = v["shown_early"].as_u64().unwrap_or(0);
                    let mut it = stages.iter();
                    let mut p: Pipeline = exec_of_how(it.next().unwrap(), how) | exec_of_how(it.next().unwrap(), how);
                    for s in it {
                        p = p | exec_of_how(s, how);
                    }
                    let d = format!("{:?}", p);
                    let o = d.strip_prefix("Pipeline { ").and_then(|x| x.strip_suffix(" }")).unwrap_or("\u{0}").to_string();
                    let x = d.clone();
                    (o, d, x, format!("{:#?}", p))
                });
                std::panic::set_hook(hook);
                if odd {
                    std::env::remove_var("VERIF_ODD_VAR");
                }
                // (a rendering that panics has produced nothing a shell could read back)
                let (out, dbg, dbg_expected, alt) =
                    rendered.unwrap_or(("\u{0}".to_string(), "panic".to_string(), "".to_string(), "\u{0}".to_string()));
                // the alternate form ({:#?}, what dbg!() prints): whatever stands between the outer braces
                let alt_inner = match (alt.find('{'), alt.rfind('}')) {
                    (Some(a), Some(b)) if a < b => alt[a + 1..b].trim().to_string(),
                    _ => "\u{0}".to_string(),
                };
                // ask the real shell (only when the program is our reporting child)
                let mut sh_argvs: Vec<Value> = vec![];
                let mut asked = false;
                if v["sh"].as_bool().unwrap_or(false) && stages.len() == 1 {
                    asked = true;
                    let _ = fs::remove_dir_all(vr());
                    let _ = fs::create_dir_all(vr());
                    let st = std::process::Command::new("sh").arg("-c").arg(&out).stdin(std::process::Stdio::null())
                        .stdout(std::process::Stdio::null()).stderr(std::process::Stdio::null()).status();
                    let _ = st;
                    if let Ok(rd) = fs::read_dir(vr()) {
                        for e in rd.flatten() {
                            if e.path().extension().map(|x| x == "json").unwrap_or(false) {
                                if let Ok(r) = serde_json::from_str::<Value>(&fs::read_to_string(e.path()).unwrap_or_default()) {
                                    let a: Vec<Vec<u32>> = r["argv"].as_array().unwrap().iter()
                                        .map(|h| cps(&String::from_utf8_lossy(&unhex(h.as_str().unwrap())))).collect();
                                    sh_argvs.push(json!(a));
                                }
                            }
                        }
                    }
                }
                let mut ev = json!({"e":"shcase","id":v["id"],"stages":v["stages"],"out":cps(&out),"debug_matches":dbg == dbg_expected,
                    "asked_sh":asked,"sh_runs":sh_argvs.len(),"sh_argv": sh_argvs.get(0).cloned().unwrap_or(json!([])),
                    "alt":cps(&alt_inner)});
                if v["env"].is_array() {
                    ev["env"] = json!(v["env"].as_array().unwrap().len());
                }
                ev
            }
            "win" => {
                let argv: Vec<winshim::OsString> = v["argv"].as_array().unwrap().iter()
                    .map(|a| winshim::OsString(a.as_array().unwrap().iter().map(|u| u.as_u64().unwrap() as u16).collect())).collect();
                if !winshim::EXTRACTED {
                    eprintln!("quote_replay: the Windows functions could not be extracted from /repo/src/popen.rs");
                    std::process::exit(2);
                }
                match winshim::assemble_cmdline(argv) {
                    Ok(o) => json!({"e":"wincase","id":v["id"],"argv":v["argv"],"ok":true,"out":o.0,"errno":0}),
                    Err(e) => json!({"e":"wincase","id":v["id"],"argv":v["argv"],"ok":false,"out":[],"errno":e.raw_os_error().unwrap_or(0)}),
                }
            }
            "winenv" => {
                // the environment block for CreateProcessW, from the function extracted from the source
                // (either signature: Vec<u16>, or io::Result<Vec<u16>> once NUL is refused)
                trait IntoBlock {
                    fn into_block(self) -> Result<Vec<u16>, i32>;
                }
                impl IntoBlock for Vec<u16> {
                    fn into_block(self) -> Result<Vec<u16>, i32> {
                        Ok(self)
                    }
                }
                impl IntoBlock for std::io::Result<Vec<u16>> {
                    fn into_block(self) -> Result<Vec<u16>, i32> {
                        self.map_err(|e| e.raw_os_error().unwrap_or(-1))
                    }
                }
                if !winshim::EXTRACTED {
                    eprintln!("quote_replay: the Windows functions could not be extracted from /repo/src/popen.rs");
                    std::process::exit(2);
                }
                let units = |a: &Value| winshim::OsString(a.as_array().unwrap().iter().map(|u| u.as_u64().unwrap() as u16).collect());
                let env: Vec<(winshim::OsString, winshim::OsString)> =
                    v["env"].as_array().unwrap().iter().map(|kv| (units(&kv[0]), units(&kv[1]))).collect();
                match winshim::format_env_block(&env).into_block() {
                    Ok(b) => json!({"e":"winenv","id":v["id"],"env":v["env"],"ok":true,"block":b,"errno":0}),
                    Err(e) => json!({"e":"winenv","id":v["id"],"env":v["env"],"ok":false,"block":[],"errno":e}),
                }
            }
            x => panic!("bad kind {}", x),
        };
        outf.write_all(ev.to_string().as_bytes()).unwrap();
        outf.write_all(b"\n").unwrap();
    }
    outf.flush().unwrap();
    end_run();
    eprintln!("quote_replay: {} cases", n);
}
