//! Hook table consulted by the link-time interposers (see `define_interposers!`).
//! A hook returns `None` to let the call pass through to the real kernel.
#![allow(clippy::type_complexity)]
use libc::{c_char, c_int, c_long, c_void};

#[derive(Clone, Copy)]
pub struct HookTable {
    pub read: Option<unsafe fn(c_int, *mut c_void, usize) -> Option<isize>>,
    pub write: Option<unsafe fn(c_int, *const c_void, usize) -> Option<isize>>,
    pub close: Option<unsafe fn(c_int) -> Option<c_int>>,
    pub poll: Option<unsafe fn(*mut libc::pollfd, libc::nfds_t, c_int) -> Option<c_int>>,
    pub clock_gettime: Option<unsafe fn(libc::clockid_t, *mut libc::timespec) -> Option<c_int>>,
    pub clock_nanosleep: Option<
        unsafe fn(libc::clockid_t, c_int, *const libc::timespec, *mut libc::timespec) -> Option<c_int>,
    >,
    pub waitpid: Option<unsafe fn(c_int, *mut c_int, c_int) -> Option<c_int>>,
    pub kill: Option<unsafe fn(c_int, c_int) -> Option<c_int>>,
    pub pipe: Option<unsafe fn(*mut c_int, c_int) -> Option<c_int>>,
    pub fcntl: Option<unsafe fn(c_int, c_int, c_long) -> Option<c_int>>,
    pub dup2: Option<unsafe fn(c_int, c_int) -> Option<c_int>>,
    pub fork_pre: Option<unsafe fn() -> Option<c_int>>,
    pub fork_post: Option<unsafe fn(c_int)>,
    pub chdir: Option<unsafe fn(*const c_char) -> Option<c_int>>,
    pub setuid: Option<unsafe fn(libc::uid_t) -> Option<c_int>>,
    pub setgid: Option<unsafe fn(libc::gid_t) -> Option<c_int>>,
    pub setpgid: Option<unsafe fn(c_int, c_int) -> Option<c_int>>,
    pub execve: Option<
        unsafe fn(*const c_char, *const *const c_char, *const *const c_char, bool) -> Option<c_int>,
    >,
    pub sigmask: Option<unsafe fn(c_int) -> Option<c_int>>,
    pub signal: Option<unsafe fn(c_int, usize) -> Option<usize>>,
    pub exit: Option<unsafe fn(c_int)>,
}

pub const EMPTY: HookTable = HookTable {
    read: None,
    write: None,
    close: None,
    poll: None,
    clock_gettime: None,
    clock_nanosleep: None,
    waitpid: None,
    kill: None,
    pipe: None,
    fcntl: None,
    dup2: None,
    fork_pre: None,
    fork_post: None,
    chdir: None,
    setuid: None,
    setgid: None,
    setpgid: None,
    execve: None,
    sigmask: None,
    signal: None,
    exit: None,
};

pub static mut HOOKS: HookTable = EMPTY;

/// Number of interposed calls seen (canary: proves the interposers are linked in).
pub static SEEN: std::sync::atomic::AtomicUsize = std::sync::atomic::AtomicUsize::new(0);

#[inline]
pub fn hooks() -> HookTable {
    SEEN.fetch_add(1, std::sync::atomic::Ordering::Relaxed);
    unsafe { *std::ptr::addr_of!(HOOKS) }
}

pub fn install(t: HookTable) {
    unsafe { *std::ptr::addr_of_mut!(HOOKS) = t }
}

/// Expands, in the *binary* crate, to `#[no_mangle] extern "C"` definitions of the libc entry
/// points the library and std use.  The executable's own definitions win symbol resolution, so
/// every such call lands here first.
#[macro_export]
macro_rules! define_interposers {
    () => {
        use libc::{c_char as __c_char, c_int as __c_int, c_long as __c_long, c_void as __c_void};
        #[no_mangle]
        pub unsafe extern "C" fn read(fd: __c_int, buf: *mut __c_void, n: usize) -> isize {
            if let Some(f) = $crate::hooks::hooks().read {
                if let Some(r) = f(fd, buf, n) {
                    return r;
                }
            }
            $crate::raw::read(fd, buf, n)
        }
        #[no_mangle]
        pub unsafe extern "C" fn write(fd: __c_int, buf: *const __c_void, n: usize) -> isize {
            if let Some(f) = $crate::hooks::hooks().write {
                if let Some(r) = f(fd, buf, n) {
                    return r;
                }
            }
            $crate::raw::write(fd, buf, n)
        }
        #[no_mangle]
        pub unsafe extern "C" fn close(fd: __c_int) -> __c_int {
            if let Some(f) = $crate::hooks::hooks().close {
                if let Some(r) = f(fd) {
                    return r;
                }
            }
            $crate::raw::close(fd)
        }
        #[no_mangle]
        pub unsafe extern "C" fn poll(
            fds: *mut libc::pollfd,
            n: libc::nfds_t,
            timeout: __c_int,
        ) -> __c_int {
            if let Some(f) = $crate::hooks::hooks().poll {
                if let Some(r) = f(fds, n, timeout) {
                    return r;
                }
            }
            $crate::raw::poll(fds, n, timeout)
        }
        #[no_mangle]
        pub unsafe extern "C" fn clock_gettime(
            clk: libc::clockid_t,
            ts: *mut libc::timespec,
        ) -> __c_int {
            if let Some(f) = $crate::hooks::hooks().clock_gettime {
                if let Some(r) = f(clk, ts) {
                    return r;
                }
            }
            $crate::raw::clock_gettime(clk, ts)
        }
        #[no_mangle]
        pub unsafe extern "C" fn clock_nanosleep(
            clk: libc::clockid_t,
            flags: __c_int,
            req: *const libc::timespec,
            rem: *mut libc::timespec,
        ) -> __c_int {
            if let Some(f) = $crate::hooks::hooks().clock_nanosleep {
                if let Some(r) = f(clk, flags, req, rem) {
                    return r;
                }
            }
            $crate::raw::clock_nanosleep(clk, flags, req, rem)
        }
        #[no_mangle]
        pub unsafe extern "C" fn nanosleep(
            req: *const libc::timespec,
            rem: *mut libc::timespec,
        ) -> __c_int {
            let r = clock_nanosleep(libc::CLOCK_MONOTONIC, 0, req, rem);
            if r != 0 {
                $crate::raw::set_errno(r);
                return -1;
            }
            0
        }
        #[no_mangle]
        pub unsafe extern "C" fn waitpid(
            pid: __c_int,
            status: *mut __c_int,
            flags: __c_int,
        ) -> __c_int {
            if let Some(f) = $crate::hooks::hooks().waitpid {
                if let Some(r) = f(pid, status, flags) {
                    return r;
                }
            }
            $crate::raw::wait4(pid, status, flags)
        }
        #[no_mangle]
        pub unsafe extern "C" fn kill(pid: __c_int, sig: __c_int) -> __c_int {
            if let Some(f) = $crate::hooks::hooks().kill {
                if let Some(r) = f(pid, sig) {
                    return r;
                }
            }
            $crate::raw::kill(pid, sig)
        }
        #[no_mangle]
        pub unsafe extern "C" fn killpg(pgrp: __c_int, sig: __c_int) -> __c_int {
            // (glibc's killpg does not go through the `kill` symbol)
            kill(-pgrp, sig)
        }
        #[no_mangle]
        pub unsafe extern "C" fn pipe(fds: *mut __c_int) -> __c_int {
            if let Some(f) = $crate::hooks::hooks().pipe {
                if let Some(r) = f(fds, 0) {
                    return r;
                }
            }
            $crate::raw::pipe2(fds, 0)
        }
        #[no_mangle]
        pub unsafe extern "C" fn pipe2(fds: *mut __c_int, flags: __c_int) -> __c_int {
            if let Some(f) = $crate::hooks::hooks().pipe {
                if let Some(r) = f(fds, flags) {
                    return r;
                }
            }
            $crate::raw::pipe2(fds, flags)
        }
        #[no_mangle]
        pub unsafe extern "C" fn fcntl(fd: __c_int, cmd: __c_int, arg: __c_long) -> __c_int {
            if let Some(f) = $crate::hooks::hooks().fcntl {
                if let Some(r) = f(fd, cmd, arg) {
                    return r;
                }
            }
            $crate::raw::fcntl(fd, cmd, arg)
        }
        #[no_mangle]
        pub unsafe extern "C" fn fcntl64(fd: __c_int, cmd: __c_int, arg: __c_long) -> __c_int {
            fcntl(fd, cmd, arg)
        }
        #[no_mangle]
        pub unsafe extern "C" fn dup(a: __c_int) -> __c_int {
            // (the lowest free descriptor, inheritable: the same thing as fcntl(F_DUPFD, 0), and recorded as such)
            fcntl(a, libc::F_DUPFD, 0)
        }
        #[no_mangle]
        pub unsafe extern "C" fn dup2(a: __c_int, b: __c_int) -> __c_int {
            if let Some(f) = $crate::hooks::hooks().dup2 {
                if let Some(r) = f(a, b) {
                    return r;
                }
            }
            $crate::raw::dup2(a, b)
        }
        #[no_mangle]
        pub unsafe extern "C" fn fork() -> __c_int {
            let h = $crate::hooks::hooks();
            if let Some(f) = h.fork_pre {
                if let Some(r) = f() {
                    return r;
                }
            }
            let real: unsafe extern "C" fn() -> __c_int = {
                let p = libc::dlsym(libc::RTLD_NEXT, b"fork\0".as_ptr() as *const __c_char);
                std::mem::transmute(p)
            };
            let r = real();
            if let Some(f) = h.fork_post {
                f(r);
            }
            r
        }
        #[no_mangle]
        pub unsafe extern "C" fn chdir(p: *const __c_char) -> __c_int {
            if let Some(f) = $crate::hooks::hooks().chdir {
                if let Some(r) = f(p) {
                    return r;
                }
            }
            $crate::raw::chdir(p)
        }
        #[no_mangle]
        pub unsafe extern "C" fn setuid(u: libc::uid_t) -> __c_int {
            if let Some(f) = $crate::hooks::hooks().setuid {
                if let Some(r) = f(u) {
                    return r;
                }
            }
            $crate::raw::setuid(u)
        }
        #[no_mangle]
        pub unsafe extern "C" fn setgid(g: libc::gid_t) -> __c_int {
            if let Some(f) = $crate::hooks::hooks().setgid {
                if let Some(r) = f(g) {
                    return r;
                }
            }
            $crate::raw::setgid(g)
        }
        #[no_mangle]
        pub unsafe extern "C" fn setpgid(p: __c_int, g: __c_int) -> __c_int {
            if let Some(f) = $crate::hooks::hooks().setpgid {
                if let Some(r) = f(p, g) {
                    return r;
                }
            }
            $crate::raw::setpgid(p, g)
        }
        #[no_mangle]
        pub unsafe extern "C" fn execve(
            p: *const __c_char,
            argv: *const *const __c_char,
            envp: *const *const __c_char,
        ) -> __c_int {
            if let Some(f) = $crate::hooks::hooks().execve {
                if let Some(r) = f(p, argv, envp, true) {
                    return r;
                }
            }
            $crate::raw::execve(p, argv, envp)
        }
        #[no_mangle]
        pub unsafe extern "C" fn execv(
            p: *const __c_char,
            argv: *const *const __c_char,
        ) -> __c_int {
            extern "C" {
                static environ: *const *const __c_char;
            }
            if let Some(f) = $crate::hooks::hooks().execve {
                if let Some(r) = f(p, argv, environ, false) {
                    return r;
                }
            }
            $crate::raw::execve(p, argv, environ)
        }
        #[no_mangle]
        pub unsafe extern "C" fn pthread_sigmask(
            how: __c_int,
            set: *const libc::sigset_t,
            old: *mut libc::sigset_t,
        ) -> __c_int {
            if let Some(f) = $crate::hooks::hooks().sigmask {
                if let Some(r) = f(how) {
                    return r;
                }
            }
            // kernel sigset is 8 bytes
            let r = libc::syscall(libc::SYS_rt_sigprocmask, how as __c_long, set, old, 8usize);
            if r < 0 {
                $crate::raw::errno()
            } else {
                0
            }
        }
        #[no_mangle]
        pub unsafe extern "C" fn signal(sig: __c_int, handler: usize) -> usize {
            if let Some(f) = $crate::hooks::hooks().signal {
                if let Some(r) = f(sig, handler) {
                    return r;
                }
            }
            $crate::raw::signal(sig, handler)
        }
        #[no_mangle]
        pub unsafe extern "C" fn _exit(code: __c_int) -> ! {
            if let Some(f) = $crate::hooks::hooks().exit {
                f(code);
            }
            $crate::raw::exit_group(code)
        }
    };
}
