pub mod csim;
pub mod hooks;
pub mod raw;
pub mod units;
pub mod psim;
pub mod slog;
pub mod rk;
pub mod winshim;
