//! Self-describing stream content.  A stream is a sequence of *units* of `unit` bytes, each unit
//! encoding its own identifier, so that a byte vector can be projected to the identifier sequence
//! by a local, total function that knows nothing about what is expected (`decode`).
//!
//! unit == 1 : the byte value is the id (ids 1..=250)
//! unit == 2 : big-endian u16 id
//! unit >= 4 : [0xC5, id_hi, id_lo, id_hi^id_lo^0x5A, filler(id, j) ...]
//! Anything that is not a well-formed unit decodes to id 0 ("garbage").

pub const IN: usize = 0;
pub const OUT: usize = 1;
pub const ERR: usize = 2;
pub const SNAME: [&str; 3] = ["in", "out", "err"];

pub fn base(stream: usize, unit: usize) -> u32 {
    if unit == 1 {
        [160, 0, 80][stream]
    } else {
        [40000, 0, 20000][stream]
    }
}

fn filler(id: u32, j: usize) -> u8 {
    ((id as usize).wrapping_mul(31).wrapping_add(j.wrapping_mul(7)) & 0xff) as u8
}

pub fn encode_unit(id: u32, unit: usize, out: &mut Vec<u8>) {
    match unit {
        1 => out.push(id as u8),
        2 => {
            out.push((id >> 8) as u8);
            out.push(id as u8);
        }
        _ => {
            let hi = (id >> 8) as u8;
            let lo = id as u8;
            out.push(0xC5);
            out.push(hi);
            out.push(lo);
            out.push(hi ^ lo ^ 0x5A);
            for j in 4..unit {
                out.push(filler(id, j));
            }
        }
    }
}

/// ids `first..first+n` (1-based index within the stream) of stream `s`
pub fn stream_bytes(s: usize, unit: usize, first_index: usize, n: usize) -> Vec<u8> {
    let mut v = Vec::with_capacity(n * unit);
    for i in 0..n {
        encode_unit(base(s, unit) + (first_index + i) as u32, unit, &mut v);
    }
    v
}

pub fn decode(bytes: &[u8], unit: usize) -> Vec<i64> {
    let mut ids = Vec::with_capacity(bytes.len() / unit + 1);
    let mut i = 0;
    while i < bytes.len() {
        let end = i + unit;
        if end > bytes.len() {
            ids.push(0);
            break;
        }
        let u = &bytes[i..end];
        let id = match unit {
            1 => u[0] as i64,
            2 => ((u[0] as i64) << 8) | u[1] as i64,
            _ => {
                let id = ((u[1] as u32) << 8) | u[2] as u32;
                let ok = u[0] == 0xC5
                    && u[3] == u[1] ^ u[2] ^ 0x5A
                    && (4..unit).all(|j| u[j] == filler(id, j));
                if ok {
                    id as i64
                } else {
                    0
                }
            }
        };
        ids.push(id);
        i = end;
    }
    ids
}

/// Small deterministic PRNG (splitmix64) so the harness needs no external crate for randomness.
#[derive(Clone)]
pub struct Rng(pub u64);
impl Rng {
    pub fn new(seed: u64) -> Rng {
        Rng(seed.wrapping_mul(0x9E3779B97F4A7C15) ^ 0xD1B54A32D192ED03)
    }
    pub fn next(&mut self) -> u64 {
        self.0 = self.0.wrapping_add(0x9E3779B97F4A7C15);
        let mut z = self.0;
        z = (z ^ (z >> 30)).wrapping_mul(0xBF58476D1CE4E5B9);
        z = (z ^ (z >> 27)).wrapping_mul(0x94D049BB133111EB);
        z ^ (z >> 31)
    }
    pub fn below(&mut self, n: usize) -> usize {
        if n == 0 {
            0
        } else {
            (self.next() % n as u64) as usize
        }
    }
    pub fn chance(&mut self, num: u64, den: u64) -> bool {
        self.next() % den < num
    }
}

/// position-dependent content for the real-kernel byte streams: byte at offset `i` of stream `s` (0 = stdin,
/// 1 = stdout, 2 = stderr).  Any loss, duplication, reordering or mis-routing changes some byte.
pub fn pat(s: usize, i: u64) -> u8 {
    let x = (i as u32).wrapping_mul(2654435761).wrapping_add((i >> 32) as u32);
    (((x >> 13) as u8) ^ [0x11u8, 0x5a, 0xa7][s]).wrapping_add((i / 4093) as u8)
}
