//! Raw system calls (bypass the interposed libc symbols).
#![allow(clippy::missing_safety_doc)]
use libc::{c_int, c_long, c_void};

pub unsafe fn read(fd: c_int, buf: *mut c_void, n: usize) -> isize {
    libc::syscall(libc::SYS_read, fd as c_long, buf, n) as isize
}
pub unsafe fn write(fd: c_int, buf: *const c_void, n: usize) -> isize {
    libc::syscall(libc::SYS_write, fd as c_long, buf, n) as isize
}
pub unsafe fn close(fd: c_int) -> c_int {
    libc::syscall(libc::SYS_close, fd as c_long) as c_int
}
pub unsafe fn poll(fds: *mut libc::pollfd, n: libc::nfds_t, timeout: c_int) -> c_int {
    libc::syscall(libc::SYS_poll, fds, n as c_long, timeout as c_long) as c_int
}
pub unsafe fn pipe2(fds: *mut c_int, flags: c_int) -> c_int {
    libc::syscall(libc::SYS_pipe2, fds, flags as c_long) as c_int
}
pub unsafe fn fcntl(fd: c_int, cmd: c_int, arg: c_long) -> c_int {
    libc::syscall(libc::SYS_fcntl, fd as c_long, cmd as c_long, arg) as c_int
}
pub unsafe fn dup2(a: c_int, b: c_int) -> c_int {
    // x86_64 has dup2; use dup3 semantics fallback when a == b
    libc::syscall(libc::SYS_dup2, a as c_long, b as c_long) as c_int
}
pub unsafe fn wait4(pid: c_int, status: *mut c_int, flags: c_int) -> c_int {
    libc::syscall(
        libc::SYS_wait4,
        pid as c_long,
        status,
        flags as c_long,
        std::ptr::null_mut::<c_void>(),
    ) as c_int
}
pub unsafe fn kill(pid: c_int, sig: c_int) -> c_int {
    libc::syscall(libc::SYS_kill, pid as c_long, sig as c_long) as c_int
}
pub unsafe fn clock_gettime(clk: libc::clockid_t, ts: *mut libc::timespec) -> c_int {
    libc::syscall(libc::SYS_clock_gettime, clk as c_long, ts) as c_int
}
pub unsafe fn clock_nanosleep(
    clk: libc::clockid_t,
    flags: c_int,
    req: *const libc::timespec,
    rem: *mut libc::timespec,
) -> c_int {
    // the libc function returns the error number rather than setting errno
    let r = libc::syscall(libc::SYS_clock_nanosleep, clk as c_long, flags as c_long, req, rem);
    if r < 0 {
        *libc::__errno_location()
    } else {
        0
    }
}
pub unsafe fn chdir(p: *const libc::c_char) -> c_int {
    libc::syscall(libc::SYS_chdir, p) as c_int
}
pub unsafe fn setuid(u: libc::uid_t) -> c_int {
    // raw setuid only affects the calling thread; fine for a forked (single-threaded) child
    libc::syscall(libc::SYS_setuid, u as c_long) as c_int
}
pub unsafe fn setgid(g: libc::gid_t) -> c_int {
    libc::syscall(libc::SYS_setgid, g as c_long) as c_int
}
pub unsafe fn setpgid(p: c_int, g: c_int) -> c_int {
    libc::syscall(libc::SYS_setpgid, p as c_long, g as c_long) as c_int
}
pub unsafe fn execve(
    p: *const libc::c_char,
    argv: *const *const libc::c_char,
    envp: *const *const libc::c_char,
) -> c_int {
    libc::syscall(libc::SYS_execve, p, argv, envp) as c_int
}
pub unsafe fn getpid() -> c_int {
    libc::syscall(libc::SYS_getpid) as c_int
}
pub unsafe fn open(p: *const libc::c_char, flags: c_int, mode: c_int) -> c_int {
    libc::syscall(libc::SYS_open, p, flags as c_long, mode as c_long) as c_int
}
pub unsafe fn exit_group(code: c_int) -> ! {
    libc::syscall(libc::SYS_exit_group, code as c_long);
    loop {}
}
pub fn set_errno(e: c_int) {
    unsafe { *libc::__errno_location() = e }
}
pub fn errno() -> c_int {
    unsafe { *libc::__errno_location() }
}

/// signal(2) with the BSD semantics glibc gives it (handler stays installed, system calls are restarted)
pub unsafe fn signal(sig: c_int, handler: usize) -> usize {
    let mut new: libc::sigaction = std::mem::zeroed();
    let mut old: libc::sigaction = std::mem::zeroed();
    new.sa_sigaction = handler;
    new.sa_flags = libc::SA_RESTART;
    libc::sigemptyset(&mut new.sa_mask);
    if libc::sigaction(sig, &new, &mut old) != 0 {
        return libc::SIG_ERR;
    }
    old.sa_sigaction
}
