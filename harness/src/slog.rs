//! Allocation-free system-call log shared between the harness and the children it forks
//! (MAP_SHARED), fault plans that also apply inside the forked child, and the allocation counter
//! for the fork..exec window.
#![allow(static_mut_refs)]
use libc::{c_char, c_int, c_long, c_void};
use std::sync::atomic::{AtomicUsize, Ordering};

pub const K_PIPE: u32 = 1;
pub const K_FCNTL: u32 = 2;
pub const K_DUP2: u32 = 3;
pub const K_CLOSE: u32 = 4;
pub const K_FORK: u32 = 5;
pub const K_CHDIR: u32 = 6;
pub const K_SETUID: u32 = 7;
pub const K_SETGID: u32 = 8;
pub const K_SETPGID: u32 = 9;
pub const K_EXECVE: u32 = 10;
pub const K_SIGMASK: u32 = 11;
pub const K_EXIT: u32 = 12;
pub const K_READ: u32 = 13;
pub const K_WRITE: u32 = 14;
pub const K_WAITPID: u32 = 15;
pub const K_KILL: u32 = 16;
pub const K_CHILDSTART: u32 = 17; // first thing a forked child logs
pub const K_SIGNAL: u32 = 18;
pub const K_POLL: u32 = 19;
pub const K_ESCAPE: u32 = 20; // the forked child returned from the library into the harness
pub const K_MARK: u32 = 21; // harness marker (e.g. "the drop starts here")
pub const K_EXECARG: u32 = 22; // one argv element of the following execve attempt (a = index)
pub const KNAME: [&str; 23] = [
    "?", "pipe", "fcntl", "dup2", "close", "fork", "chdir", "setuid", "setgid", "setpgid", "execve", "sigmask",
    "_exit", "read", "write", "waitpid", "kill", "childstart", "signal", "poll", "escape", "mark", "execarg",
];

pub const SLEN: usize = 200;

#[repr(C)]
#[derive(Clone, Copy)]
pub struct Rec {
    pub kind: u32,
    pub proc_: u32, // 0 = harness process, otherwise pid of the forked child
    pub tid: u32,
    pub errno: i32,
    pub a: i64,
    pub b: i64,
    pub c: i64,
    pub ret: i64,
    pub allocs: u32, // heap allocations made by this forked child so far
    pub slen: u32,
    pub s: [u8; SLEN],
}

#[repr(C)]
pub struct Shared {
    pub count: AtomicUsize,
    pub child_allocs: AtomicUsize,
    pub child_frees: AtomicUsize,
    /// the injected fault was delivered (in the parent or in the forked child)
    pub fault_fired: AtomicUsize,
    pub recs: [Rec; NREC],
}
pub const NREC: usize = 8192;

pub static mut SH: *mut Shared = std::ptr::null_mut();
/// what the library is blocked in right now (for the hang watchdog): pid > 0 = waitpid(pid),
/// -1000 - fd = read(fd), 0 = nothing
pub static BLOCKED_IN: std::sync::atomic::AtomicI64 = std::sync::atomic::AtomicI64::new(0);
pub static mut RECORDING: bool = false;
pub static mut LOG_EXEC_ARGS: bool = false;
pub static mut IN_CHILD: u32 = 0; // pid, set in the forked child's copy

pub fn init() {
    unsafe {
        let sz = std::mem::size_of::<Shared>();
        let p = libc::mmap(
            std::ptr::null_mut(),
            sz,
            libc::PROT_READ | libc::PROT_WRITE,
            libc::MAP_SHARED | libc::MAP_ANONYMOUS,
            -1,
            0,
        );
        assert!(p != libc::MAP_FAILED);
        SH = p as *mut Shared;
    }
}

pub fn reset() {
    unsafe {
        (*SH).count.store(0, Ordering::SeqCst);
        (*SH).child_allocs.store(0, Ordering::SeqCst);
        (*SH).child_frees.store(0, Ordering::SeqCst);
        DRAINED = 0;
    }
}

pub fn start() {
    reset();
    unsafe { RECORDING = true };
}
/// continue recording without clearing what was recorded so far
pub fn resume() {
    unsafe { RECORDING = true };
}
pub fn stop() {
    unsafe { RECORDING = false };
}

fn gettid() -> u32 {
    unsafe { libc::syscall(libc::SYS_gettid) as u32 }
}

pub fn rec(kind: u32, a: i64, b: i64, c: i64, ret: i64, errno: i32, s: &[u8]) {
    unsafe {
        if SH.is_null() || !RECORDING {
            return;
        }
        let i = (*SH).count.fetch_add(1, Ordering::SeqCst);
        if i >= NREC {
            return;
        }
        let r = &mut (*SH).recs[i];
        r.kind = kind;
        r.proc_ = IN_CHILD;
        r.tid = gettid();
        r.errno = errno;
        r.a = a;
        r.b = b;
        r.c = c;
        r.ret = ret;
        r.allocs = if IN_CHILD != 0 { (*SH).child_allocs.load(Ordering::SeqCst) as u32 } else { 0 };
        let n = s.len().min(SLEN);
        r.s[..n].copy_from_slice(&s[..n]);
        r.slen = n as u32;
    }
}

static mut DRAINED: usize = 0;
/// records appended since the previous call (or since reset)
pub fn records() -> Vec<Rec> {
    unsafe {
        let n = (*SH).count.load(Ordering::SeqCst).min(NREC);
        let from = DRAINED.min(n);
        DRAINED = n;
        (&(*SH).recs)[from..n].to_vec()
    }
}

// ------------------------------------------------------------------ gate: one deterministic context switch
// Thread A (GATE_TID) is held right before its (GATE_AT+1)-th parent-side system call until thread B,
// released at that moment, has finished a complete launch of its own.
pub static GATE_AT: std::sync::atomic::AtomicI64 = std::sync::atomic::AtomicI64::new(-1);
pub static GATE_TID: std::sync::atomic::AtomicU32 = std::sync::atomic::AtomicU32::new(0);
pub static GATE_COUNT: std::sync::atomic::AtomicI64 = std::sync::atomic::AtomicI64::new(0);
pub static GATE_GO: std::sync::atomic::AtomicBool = std::sync::atomic::AtomicBool::new(false);
pub static GATE_BDONE: std::sync::atomic::AtomicBool = std::sync::atomic::AtomicBool::new(false);

pub fn gate() {
    unsafe {
        if IN_CHILD != 0 {
            return;
        }
    }
    let at = GATE_AT.load(Ordering::SeqCst);
    if at < 0 || gettid() != GATE_TID.load(Ordering::SeqCst) {
        return;
    }
    let c = GATE_COUNT.fetch_add(1, Ordering::SeqCst);
    if c == at {
        rec(K_MARK, 2, at, 0, 0, 0, b"switch");
        GATE_GO.store(true, Ordering::SeqCst);
        while !GATE_BDONE.load(Ordering::SeqCst) {
            unsafe { libc::usleep(100) };
        }
        rec(K_MARK, 3, at, 0, 0, 0, b"resume");
    }
}

// ------------------------------------------------------------------ fault plan
#[derive(Clone, Copy)]
pub struct Fault {
    pub kind: u32,
    pub nth: u32,  // 1-based occurrence among calls of this kind on this side
    pub side: u32, // 0 = harness process, 1 = forked child
    pub errno: i32,
}
pub static mut FAULT: Option<Fault> = None;
static mut COUNT: [u32; 24] = [0; 24];

pub fn set_fault(f: Option<Fault>) {
    unsafe {
        FAULT = f;
        COUNT = [0; 24];
        if f.is_some() && !SH.is_null() {
            (*SH).fault_fired.store(0, Ordering::SeqCst);
        }
    }
}
/// how long the failing step takes before it fails (µs)
pub static FAULT_DELAY_US: std::sync::atomic::AtomicU64 = std::sync::atomic::AtomicU64::new(0);
pub fn fault_fired() -> bool {
    unsafe { !SH.is_null() && (*SH).fault_fired.load(Ordering::SeqCst) != 0 }
}

/// called by every interposer before the real call; Some(errno) = fail now
pub fn fault_check(kind: u32) -> Option<i32> {
    unsafe {
        if !RECORDING {
            return None;
        }
        let side = if IN_CHILD != 0 { 1 } else { 0 };
        let f = FAULT?;
        if f.kind != kind || f.side != side {
            return None;
        }
        COUNT[kind as usize] += 1;
        if COUNT[kind as usize] == f.nth {
            if !SH.is_null() {
                (*SH).fault_fired.store(1, Ordering::SeqCst);
            }
            // (a step that takes its time before it fails: a slow file system, a starved child)
            let d = FAULT_DELAY_US.load(Ordering::SeqCst);
            if d > 0 {
                let ts = libc::timespec { tv_sec: (d / 1_000_000) as libc::time_t, tv_nsec: ((d % 1_000_000) * 1000) as libc::c_long };
                crate::raw::clock_nanosleep(libc::CLOCK_MONOTONIC, 0, &ts, std::ptr::null_mut());
            }
            Some(f.errno)
        } else {
            None
        }
    }
}

fn errno_of(r: i64) -> i32 {
    if r < 0 {
        crate::raw::errno()
    } else {
        0
    }
}

// ------------------------------------------------------------------ hooks (log + fault + pass through)
unsafe fn cstr_bytes<'a>(p: *const c_char) -> &'a [u8] {
    if p.is_null() {
        return b"";
    }
    let mut n = 0;
    while *p.add(n) != 0 && n < 4096 {
        n += 1;
    }
    std::slice::from_raw_parts(p as *const u8, n)
}

unsafe fn h_pipe(fds: *mut c_int, flags: c_int) -> Option<c_int> {
    if !RECORDING {
        return None;
    }
    gate();
    if let Some(e) = fault_check(K_PIPE) {
        rec(K_PIPE, -1, -1, 0, -1, e, b"");
        crate::raw::set_errno(e);
        return Some(-1);
    }
    let r = crate::raw::pipe2(fds, flags);
    let en = errno_of(r as i64);
    let mut ino: i64 = 0;
    if r == 0 {
        let mut st: libc::stat = std::mem::zeroed();
        if libc::fstat(*fds, &mut st) == 0 {
            ino = st.st_ino as i64;
        }
    }
    rec(K_PIPE, *fds as i64, *fds.add(1) as i64, ino, r as i64, en, if flags & libc::O_CLOEXEC != 0 { b"cx" } else { b"" });
    crate::raw::set_errno(en);
    Some(r)
}
unsafe fn h_fcntl(fd: c_int, cmd: c_int, arg: c_long) -> Option<c_int> {
    if !RECORDING {
        return None;
    }
    gate();
    if let Some(e) = fault_check(K_FCNTL) {
        rec(K_FCNTL, fd as i64, cmd as i64, arg as i64, -1, e, b"");
        crate::raw::set_errno(e);
        return Some(-1);
    }
    let r = crate::raw::fcntl(fd, cmd, arg);
    let en = errno_of(r as i64);
    rec(K_FCNTL, fd as i64, cmd as i64, arg as i64, r as i64, en, b"");
    crate::raw::set_errno(en);
    Some(r)
}
unsafe fn h_dup2(a: c_int, b: c_int) -> Option<c_int> {
    if !RECORDING {
        return None;
    }
    gate();
    if let Some(e) = fault_check(K_DUP2) {
        rec(K_DUP2, a as i64, b as i64, 0, -1, e, b"");
        crate::raw::set_errno(e);
        return Some(-1);
    }
    let r = crate::raw::dup2(a, b);
    let en = errno_of(r as i64);
    rec(K_DUP2, a as i64, b as i64, 0, r as i64, en, b"");
    crate::raw::set_errno(en);
    Some(r)
}
unsafe fn h_close(fd: c_int) -> Option<c_int> {
    if !RECORDING {
        return None;
    }
    gate();
    let r = crate::raw::close(fd);
    let en = errno_of(r as i64);
    rec(K_CLOSE, fd as i64, 0, 0, r as i64, en, b"");
    crate::raw::set_errno(en);
    Some(r)
}
unsafe fn h_read(fd: c_int, buf: *mut c_void, n: usize) -> Option<isize> {
    if !RECORDING || fd <= 2 {
        return None;
    }
    if let Some(e) = fault_check(K_READ) {
        rec(K_READ, fd as i64, n as i64, 0, -1, e, b"");
        crate::raw::set_errno(e);
        return Some(-1);
    }
    BLOCKED_IN.store(-1000 - fd as i64, Ordering::SeqCst);
    let r = crate::raw::read(fd, buf, n);
    let en = errno_of(r as i64);
    BLOCKED_IN.store(0, Ordering::SeqCst);
    crate::raw::set_errno(en);
    rec(K_READ, fd as i64, n as i64, 0, r as i64, en, b"");
    crate::raw::set_errno(en);
    Some(r)
}
unsafe fn h_write(fd: c_int, buf: *const c_void, n: usize) -> Option<isize> {
    if !RECORDING || fd <= 2 {
        return None;
    }
    BLOCKED_IN.store(-2000 - fd as i64, Ordering::SeqCst);
    let r = crate::raw::write(fd, buf, n);
    let en = errno_of(r as i64);
    BLOCKED_IN.store(0, Ordering::SeqCst);
    rec(K_WRITE, fd as i64, n as i64, 0, r as i64, en, b"");
    crate::raw::set_errno(en);
    Some(r)
}
unsafe fn h_fork_pre() -> Option<c_int> {
    if !RECORDING {
        return None;
    }
    gate();
    if let Some(e) = fault_check(K_FORK) {
        rec(K_FORK, 0, 0, 0, -1, e, b"");
        crate::raw::set_errno(e);
        return Some(-1);
    }
    None
}
unsafe fn h_fork_post(r: c_int) {
    if !RECORDING {
        return;
    }
    if r == 0 {
        IN_CHILD = crate::raw::getpid() as u32;
        COUNT = [0; 24];
        (*SH).child_allocs.store(0, Ordering::SeqCst);
        (*SH).child_frees.store(0, Ordering::SeqCst);
        rec(K_CHILDSTART, 0, 0, 0, 0, 0, b"");
    } else {
        let en = errno_of(r as i64);
        rec(K_FORK, 0, 0, 0, r as i64, en, b"");
        // a scenario may hold the parent up right after fork() (it is preempted; the child runs on and execs)
        let us = PARENT_DELAY_AFTER_FORK_US.load(Ordering::SeqCst);
        if us > 0 && r > 0 {
            libc::usleep(us as u32);
        }
        crate::raw::set_errno(en);
    }
}
pub static PARENT_DELAY_AFTER_FORK_US: std::sync::atomic::AtomicU64 = std::sync::atomic::AtomicU64::new(0);
unsafe fn h_chdir(p: *const c_char) -> Option<c_int> {
    if !RECORDING {
        return None;
    }
    let s = cstr_bytes(p);
    if let Some(e) = fault_check(K_CHDIR) {
        rec(K_CHDIR, 0, 0, 0, -1, e, s);
        crate::raw::set_errno(e);
        return Some(-1);
    }
    let r = crate::raw::chdir(p);
    let en = errno_of(r as i64);
    rec(K_CHDIR, 0, 0, 0, r as i64, en, s);
    crate::raw::set_errno(en);
    Some(r)
}
unsafe fn h_setuid(u: libc::uid_t) -> Option<c_int> {
    if !RECORDING {
        return None;
    }
    if let Some(e) = fault_check(K_SETUID) {
        rec(K_SETUID, u as i64, 0, 0, -1, e, b"");
        crate::raw::set_errno(e);
        return Some(-1);
    }
    let r = crate::raw::setuid(u);
    let en = errno_of(r as i64);
    rec(K_SETUID, u as i64, 0, 0, r as i64, en, b"");
    crate::raw::set_errno(en);
    Some(r)
}
unsafe fn h_setgid(g: libc::gid_t) -> Option<c_int> {
    if !RECORDING {
        return None;
    }
    if let Some(e) = fault_check(K_SETGID) {
        rec(K_SETGID, g as i64, 0, 0, -1, e, b"");
        crate::raw::set_errno(e);
        return Some(-1);
    }
    let r = crate::raw::setgid(g);
    let en = errno_of(r as i64);
    rec(K_SETGID, g as i64, 0, 0, r as i64, en, b"");
    crate::raw::set_errno(en);
    Some(r)
}
unsafe fn h_setpgid(p: c_int, g: c_int) -> Option<c_int> {
    if !RECORDING {
        return None;
    }
    if let Some(e) = fault_check(K_SETPGID) {
        rec(K_SETPGID, p as i64, g as i64, 0, -1, e, b"");
        crate::raw::set_errno(e);
        return Some(-1);
    }
    let r = crate::raw::setpgid(p, g);
    let en = errno_of(r as i64);
    rec(K_SETPGID, p as i64, g as i64, 0, r as i64, en, b"");
    crate::raw::set_errno(en);
    Some(r)
}
unsafe fn h_execve(
    p: *const c_char,
    argv: *const *const c_char,
    envp: *const *const c_char,
    with_env: bool,
) -> Option<c_int> {
    if !RECORDING {
        return None;
    }
    let s = cstr_bytes(p);
    if let Some(e) = fault_check(K_EXECVE) {
        rec(K_EXECVE, with_env as i64, 0, 0, -1, e, s);
        crate::raw::set_errno(e);
        return Some(-1);
    }
    // the argument vector handed to exec (first 12 elements), for the checks that need to see what
    // a program that is not ours (sh) was given
    if LOG_EXEC_ARGS {
        let mut k = 0;
        while k < 12 && !argv.is_null() && !(*argv.add(k)).is_null() {
            rec(K_EXECARG, k as i64, 0, 0, 0, 0, cstr_bytes(*argv.add(k)));
            k += 1;
        }
    }
    // log the attempt first: a successful exec never returns
    let i = (*SH).count.load(Ordering::SeqCst);
    rec(K_EXECVE, with_env as i64, 0, 0, 0, 0, s);
    let r = crate::raw::execve(p, argv, envp);
    let en = crate::raw::errno();
    if i < NREC {
        (*SH).recs[i].ret = r as i64;
        (*SH).recs[i].errno = en;
    }
    crate::raw::set_errno(en);
    Some(r)
}
unsafe fn h_sigmask(how: c_int) -> Option<c_int> {
    if !RECORDING || IN_CHILD == 0 {
        return None;
    }
    if let Some(e) = fault_check(K_SIGMASK) {
        rec(K_SIGMASK, how as i64, 0, 0, e as i64, e, b"");
        return Some(e);
    }
    rec(K_SIGMASK, how as i64, 0, 0, 0, 0, b"");
    None
}
unsafe fn h_signal(sig: c_int, handler: usize) -> Option<usize> {
    if !RECORDING || IN_CHILD == 0 {
        return None;
    }
    if let Some(e) = fault_check(K_SIGNAL) {
        rec(K_SIGNAL, sig as i64, handler as i64, 0, -1, e, b"");
        crate::raw::set_errno(e);
        return Some(libc::SIG_ERR);
    }
    rec(K_SIGNAL, sig as i64, handler as i64, 0, 0, 0, b"");
    None
}
unsafe fn h_exit(code: c_int) {
    if RECORDING {
        rec(K_EXIT, code as i64, 0, 0, 0, 0, b"");
    }
}
unsafe fn h_waitpid(pid: c_int, status: *mut c_int, flags: c_int) -> Option<c_int> {
    if !RECORDING {
        return None;
    }
    if let Some(e) = fault_check(K_WAITPID) {
        rec(K_WAITPID, pid as i64, flags as i64, 0, -1, e, b"");
        crate::raw::set_errno(e);
        return Some(-1);
    }
    BLOCKED_IN.store(pid as i64, Ordering::SeqCst);
    let r = crate::raw::wait4(pid, status, flags);
    let en = errno_of(r as i64);
    BLOCKED_IN.store(0, Ordering::SeqCst);
    crate::raw::set_errno(en);
    rec(K_WAITPID, pid as i64, flags as i64, 0, r as i64, en, b"");
    crate::raw::set_errno(en);
    Some(r)
}
/// descriptors (and requested events) of the poll() the library is blocked in: count, then (fd << 16 | events)
pub static BLOCKED_POLL: [std::sync::atomic::AtomicI64; 5] = [
    std::sync::atomic::AtomicI64::new(0),
    std::sync::atomic::AtomicI64::new(0),
    std::sync::atomic::AtomicI64::new(0),
    std::sync::atomic::AtomicI64::new(0),
    std::sync::atomic::AtomicI64::new(0),
];
unsafe fn h_poll(fds: *mut libc::pollfd, n: libc::nfds_t, timeout: c_int) -> Option<c_int> {
    if !RECORDING {
        return None;
    }
    let k = (n as usize).min(4);
    for i in 0..k {
        let p = &*fds.add(i);
        BLOCKED_POLL[i + 1].store(((p.fd as i64) << 16) | (p.events as i64 & 0xffff), Ordering::SeqCst);
    }
    BLOCKED_POLL[0].store(k as i64, Ordering::SeqCst);
    let r = crate::raw::poll(fds, n, timeout);
    let en = errno_of(r as i64);
    BLOCKED_POLL[0].store(0, Ordering::SeqCst);
    crate::raw::set_errno(en);
    Some(r)
}
unsafe fn h_kill(pid: c_int, sig: c_int) -> Option<c_int> {
    if !RECORDING {
        return None;
    }
    let r = crate::raw::kill(pid, sig);
    let en = errno_of(r as i64);
    rec(K_KILL, pid as i64, sig as i64, 0, r as i64, en, b"");
    crate::raw::set_errno(en);
    Some(r)
}

/// registered with atexit(): the forked child of a launch must leave with _exit() -- running the process's exit-time
/// machinery (atexit handlers, destructors, stdio flushing) in a copy of the caller is as much an escape as returning
extern "C" fn at_exit_hook() {
    unsafe {
        if IN_CHILD != 0 {
            rec(K_ESCAPE, 1, 0, 0, 0, 0, b"atexit");
        }
    }
}

pub fn install() {
    unsafe { libc::atexit(at_exit_hook) };
    let mut t = crate::hooks::EMPTY;
    t.pipe = Some(h_pipe);
    t.fcntl = Some(h_fcntl);
    t.dup2 = Some(h_dup2);
    t.close = Some(h_close);
    t.read = Some(h_read);
    t.write = Some(h_write);
    t.fork_pre = Some(h_fork_pre);
    t.fork_post = Some(h_fork_post);
    t.chdir = Some(h_chdir);
    t.setuid = Some(h_setuid);
    t.setgid = Some(h_setgid);
    t.setpgid = Some(h_setpgid);
    t.execve = Some(h_execve);
    t.sigmask = Some(h_sigmask);
    t.signal = Some(h_signal);
    t.exit = Some(h_exit);
    t.waitpid = Some(h_waitpid);
    t.kill = Some(h_kill);
    t.poll = Some(h_poll);
    crate::hooks::install(t);
}

// ------------------------------------------------------------------ counting allocator
pub struct CountingAlloc;
unsafe impl std::alloc::GlobalAlloc for CountingAlloc {
    unsafe fn alloc(&self, l: std::alloc::Layout) -> *mut u8 {
        if IN_CHILD != 0 && !SH.is_null() {
            (*SH).child_allocs.fetch_add(1, Ordering::SeqCst);
        }
        std::alloc::System.alloc(l)
    }
    unsafe fn dealloc(&self, p: *mut u8, l: std::alloc::Layout) {
        if IN_CHILD != 0 && !SH.is_null() {
            (*SH).child_frees.fetch_add(1, Ordering::SeqCst);
        }
        std::alloc::System.dealloc(p, l)
    }
    unsafe fn realloc(&self, p: *mut u8, l: std::alloc::Layout, n: usize) -> *mut u8 {
        if IN_CHILD != 0 && !SH.is_null() {
            (*SH).child_allocs.fetch_add(1, Ordering::SeqCst);
        }
        std::alloc::System.realloc(p, l, n)
    }
}
