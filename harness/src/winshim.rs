//! The Windows-only pure functions of /repo/src/popen.rs (extracted textually by build.rs),
//! compiled on Linux against look-alikes of OsString/OsStr over UTF-16 units.
#![allow(dead_code, unused_imports, clippy::all)]
use std::collections::HashSet;
use std::io;
use std::ops::Deref;

#[derive(Clone, Debug, PartialEq, Eq, Hash, Default)]
pub struct OsString(pub Vec<u16>);
#[derive(Debug, PartialEq, Eq, Hash)]
#[repr(transparent)]
pub struct OsStr(pub [u16]);

impl OsString {
    pub fn from_wide(w: &[u16]) -> OsString {
        OsString(w.to_vec())
    }
    pub fn as_os_str(&self) -> &OsStr {
        self
    }
}
// (as on Windows: text converts into an OsString unit for unit)
impl From<String> for OsString {
    fn from(s: String) -> OsString {
        OsString(s.encode_utf16().collect())
    }
}
impl From<&str> for OsString {
    fn from(s: &str) -> OsString {
        OsString(s.encode_utf16().collect())
    }
}
impl Deref for OsString {
    type Target = OsStr;
    fn deref(&self) -> &OsStr {
        unsafe { &*(self.0.as_slice() as *const [u16] as *const OsStr) }
    }
}
impl AsRef<OsStr> for OsString {
    fn as_ref(&self) -> &OsStr {
        self
    }
}
impl OsStr {
    pub fn encode_wide(&self) -> impl Iterator<Item = u16> + '_ {
        self.0.iter().cloned()
    }
    pub fn is_empty(&self) -> bool {
        self.0.is_empty()
    }
    pub fn len(&self) -> usize {
        self.0.len()
    }
}
pub trait OsStrExt {}
pub trait OsStringExt {}
pub mod win32 {
    pub const ERROR_BAD_PATHNAME: u32 = 161;
}

include!(concat!(env!("OUT_DIR"), "/win_extract.rs"));
