//! Helpers for the real-kernel harness binaries: descriptor-table snapshots, conversion of the
//! shared system-call log to trace events, child bookkeeping, the reporting child's reports and the
//! hang watchdog with its wait-for evidence.
#![allow(static_mut_refs)]
use crate::slog;
use serde_json::{json, Value};
use std::fs;

/// become a session of our own (so that the reporting children of this run, which find their
/// report directory by session id, cannot collide with another run) and prepare the directories
pub fn begin_run() {
    unsafe {
        libc::setsid();
    }
    let d = vr();
    let _ = fs::remove_dir_all(&d);
    let _ = fs::create_dir_all(&d);
    use std::os::unix::fs::PermissionsExt;
    let _ = fs::set_permissions("/verif/work/vr", fs::Permissions::from_mode(0o777));
    let _ = fs::set_permissions(&d, fs::Permissions::from_mode(0o777));
    let t = tmpd();
    let _ = fs::create_dir_all(&t);
    let _ = fs::set_permissions(&t, fs::Permissions::from_mode(0o777));
}
pub fn end_run() {
    let _ = fs::remove_dir_all(vr());
}
/// where the reporting children of this run write: /verif/work/vr/<session id>
pub fn vr() -> String {
    format!("/verif/work/vr/{}", unsafe { libc::getsid(0) })
}
/// scratch directory of this run (VERIF_RUNDIR, set by the driver)
pub fn tmpd() -> String {
    std::env::var("VERIF_RUNDIR").unwrap_or_else(|_| "/verif/work/tmp".to_string())
}

/// (fd, ino, acc, pos, cloexec) of every open descriptor of this process
pub fn fd_table() -> Vec<Value> {
    let mut v = vec![];
    let mut names: Vec<i32> = fs::read_dir("/proc/self/fd")
        .unwrap()
        .filter_map(|e| e.ok()?.file_name().to_str()?.parse().ok())
        .collect();
    names.sort();
    for fd in names {
        let target = match fs::read_link(format!("/proc/self/fd/{}", fd)) {
            Ok(t) => t.to_string_lossy().into_owned(),
            Err(_) => continue,
        };
        if target.starts_with("/proc/") && target.ends_with("/fd") {
            continue;
        }
        let mut st: libc::stat = unsafe { std::mem::zeroed() };
        if unsafe { libc::fstat(fd, &mut st) } != 0 {
            continue;
        }
        let fl = unsafe { crate::raw::fcntl(fd, libc::F_GETFD, 0) };
        let info = fs::read_to_string(format!("/proc/self/fdinfo/{}", fd)).unwrap_or_default();
        let (mut pos, mut flags) = (0i64, 0i64);
        for l in info.lines() {
            if let Some(x) = l.strip_prefix("pos:") {
                pos = x.trim().parse().unwrap_or(0);
            }
            if let Some(x) = l.strip_prefix("flags:") {
                flags = i64::from_str_radix(x.trim(), 8).unwrap_or(0);
            }
        }
        v.push(json!([fd, st.st_ino as i64, flags & 3, pos, fl & libc::FD_CLOEXEC != 0]));
    }
    v
}

pub fn sys_events(out: &mut Vec<String>) -> (bool, Vec<u32>) {
    let mut forked = false;
    let mut child_pids = vec![];
    // The forked child may log before the parent's fork() has returned and been logged: put each
    // fork record in front of the first record of the child it created.
    let mut recs = slog::records();
    let mut i = 0;
    while i < recs.len() {
        if recs[i].kind == slog::K_FORK && recs[i].ret > 0 {
            let pid = recs[i].ret as u32;
            if let Some(j) = recs[..i].iter().position(|r| r.proc_ == pid) {
                let f = recs.remove(i);
                recs.insert(j, f);
            }
        }
        i += 1;
    }
    for r in recs {
        if r.kind == slog::K_FORK && r.ret > 0 {
            forked = true;
            child_pids.push(r.ret as u32);
        }
        let s = String::from_utf8_lossy(&r.s[..r.slen as usize]).into_owned();
        out.push(
            json!({"e":"sys","p": if r.proc_ == 0 {0} else {1}, "cp": r.proc_, "tid": r.tid,
                "n": slog::KNAME[r.kind as usize], "a": r.a, "b": r.b, "c": r.c, "ret": r.ret, "errno": r.errno,
                "s": s, "allocs": r.allocs})
            .to_string(),
        );
    }
    (forked, child_pids)
}

pub fn children_state() -> &'static str {
    // any child of this process left? (raw: does not go through the interposers)
    let mut st = 0;
    let r = unsafe { crate::raw::wait4(-1, &mut st, libc::WNOHANG) };
    if r > 0 {
        "zombie"
    } else if r == 0 {
        // give a just-killed child a moment to die, then look again
        std::thread::sleep(std::time::Duration::from_millis(30));
        let r2 = unsafe { crate::raw::wait4(-1, &mut st, libc::WNOHANG) };
        if r2 > 0 {
            "zombie"
        } else if r2 == 0 {
            // reap it so that it cannot disturb the next scenario
            unsafe {
                libc::kill(0, 0);
            }
            "running"
        } else {
            "none"
        }
    } else {
        "none"
    }
}

// ---- hang watchdog ---------------------------------------------------------------------------
// A leaked pipe end shows up as a hang (create() waiting on the launch-status pipe, or a child
// never seeing end-of-file).  A real-time alarm fires after WATCHDOG_S seconds of one scenario
// (normal duration: milliseconds); the handler records which of our children hold which pipes on
// descriptors above 2 -- the evidence the monitor judges -- and kills them so the run continues.
pub const WATCHDOG_S: u32 = 12;
pub static mut WATCHDOG: Vec<String> = Vec::new();

pub fn my_children() -> Vec<i32> {
    let mut v = vec![];
    if let Ok(rd) = fs::read_dir("/proc") {
        let me = std::process::id();
        for e in rd.flatten() {
            if let Some(pid) = e.file_name().to_str().and_then(|s| s.parse::<i32>().ok()) {
                if let Ok(st) = fs::read_to_string(format!("/proc/{}/stat", pid)) {
                    if let Some(rest) = st.rsplit(')').next() {
                        let f: Vec<&str> = rest.split_whitespace().collect();
                        if f.len() > 2 && f[1].parse::<u32>().ok() == Some(me) {
                            v.push(pid);
                        }
                    }
                }
            }
        }
    }
    v
}

fn pipe_ino_of(pid: i32, fd: i64) -> i64 {
    match fs::read_link(format!("/proc/{}/fd/{}", pid, fd)) {
        Ok(t) => {
            let t = t.to_string_lossy().into_owned();
            t.strip_prefix("pipe:[").and_then(|x| x.trim_end_matches(']').parse::<i64>().ok()).unwrap_or(0)
        }
        Err(_) => 0,
    }
}

/// (syscall number, first argument) a process / thread is blocked in, from /proc/<pid>/task/<tid>/syscall
fn blocked_in(path: &str) -> (i64, i64) {
    let s = fs::read_to_string(path).unwrap_or_default();
    let f: Vec<&str> = s.split_whitespace().collect();
    if f.len() < 2 {
        return (-1, 0);
    }
    let nr = f[0].parse::<i64>().unwrap_or(-1);
    let a0 = i64::from_str_radix(f[1].trim_start_matches("0x"), 16).unwrap_or(0);
    (nr, a0)
}

pub extern "C" fn on_alarm(_s: i32) {
    // first of all: what was the library blocked in, and stop logging (the handler's own file
    // operations go through the interposers too)
    let blocked = slog::BLOCKED_IN.load(std::sync::atomic::Ordering::SeqCst);
    let was_recording = unsafe { slog::RECORDING };
    unsafe { slog::RECORDING = false };
    let me = std::process::id() as i32;
    // which pipe ends do we hold ourselves: (inode, access mode)
    let mine: Vec<(i64, i64)> = fd_table()
        .iter()
        .map(|e| (e[1].as_i64().unwrap_or(0), e[2].as_i64().unwrap_or(0)))
        .collect();
    // what the library was blocked in when the alarm fired (maintained by the interposers: the
    // handler itself runs on the interrupted thread, /proc/self would only show the handler)
    let parent_waits = vec![json!(blocked)];
    let mut holders = vec![];
    for pid in my_children() {
        let mut inos = vec![];
        if let Ok(rd) = fs::read_dir(format!("/proc/{}/fd", pid)) {
            for e in rd.flatten() {
                let fd: i64 = e.file_name().to_str().and_then(|s| s.parse().ok()).unwrap_or(-1);
                if fd > 2 {
                    let i = pipe_ino_of(pid, fd);
                    if i != 0 {
                        inos.push(i);
                    }
                }
            }
        }
        let (nr, a0) = blocked_in(&format!("/proc/{}/syscall", pid));
        let (what, ino) = if nr == libc::SYS_read {
            ("read", pipe_ino_of(pid, a0))
        } else if nr == libc::SYS_write {
            ("write", pipe_ino_of(pid, a0))
        } else {
            ("other", 0)
        };
        // does the parent hold the other end of the pipe this child is blocked on
        let peer_acc = if what == "read" { 1 } else { 0 };
        let parent_holds_peer = ino != 0 && mine.iter().any(|(i, a)| *i == ino && *a == peer_acc);
        // does any *other* process hold that peer end (then the parent is not the only one to blame)
        let mut others_hold_peer = false;
        let mut peer_pids: Vec<i32> = vec![];
        if ino != 0 {
            for other in my_children() {
                if other == pid {
                    continue;
                }
                if let Ok(rd) = fs::read_dir(format!("/proc/{}/fd", other)) {
                    for e in rd.flatten() {
                        let fd: i64 = e.file_name().to_str().and_then(|s| s.parse().ok()).unwrap_or(-1);
                        if pipe_ino_of(other, fd) == ino {
                            let info = fs::read_to_string(format!("/proc/{}/fdinfo/{}", other, fd)).unwrap_or_default();
                            for l in info.lines() {
                                if let Some(x) = l.strip_prefix("flags:") {
                                    let acc = i64::from_str_radix(x.trim(), 8).unwrap_or(0) & 3;
                                    if acc == peer_acc {
                                        others_hold_peer = true;
                                        if !peer_pids.contains(&other) {
                                            peer_pids.push(other);
                                        }
                                    }
                                }
                            }
                        }
                    }
                }
            }
        }
        // a writer whose readers are all gone lives on only if SIGPIPE cannot reach it: is the signal blocked or ignored
        // in the child, and is its stdout a pipe that nobody (no child, not the parent) can read any more?
        let st = fs::read_to_string(format!("/proc/{}/status", pid)).unwrap_or_default();
        let bit = |name: &str| -> bool {
            st.lines()
                .find_map(|l| l.strip_prefix(name))
                .and_then(|v| u64::from_str_radix(v.trim().trim_start_matches(':').trim(), 16).ok())
                .map_or(false, |m| m & (1 << (libc::SIGPIPE - 1)) != 0)
        };
        let sigpipe_off = bit("SigBlk") || bit("SigIgn");
        let out_ino = pipe_ino_of(pid, 1);
        let mut out_has_reader = out_ino == 0 || mine.iter().any(|(i, a)| *i == out_ino && *a == 0);
        if out_ino != 0 && !out_has_reader {
            'scan: for other in my_children() {
                if let Ok(rd) = fs::read_dir(format!("/proc/{}/fd", other)) {
                    for e in rd.flatten() {
                        let fd: i64 = e.file_name().to_str().and_then(|s| s.parse().ok()).unwrap_or(-1);
                        if pipe_ino_of(other, fd) == out_ino {
                            let info = fs::read_to_string(format!("/proc/{}/fdinfo/{}", other, fd)).unwrap_or_default();
                            if info.lines().any(|l| l.strip_prefix("flags:").map_or(false, |x| i64::from_str_radix(x.trim(), 8).unwrap_or(1) & 3 == 0)) {
                                out_has_reader = true;
                                break 'scan;
                            }
                        }
                    }
                }
            }
        }
        holders.push(json!([pid, inos, what, ino, parent_holds_peer, others_hold_peer, peer_pids, sigpipe_off, out_ino != 0 && !out_has_reader]));
    }
    // the library blocked in read(fd) of a pipe, or in poll() on some pipes: for each of them, which children hold
    // the OTHER end (any descriptor, also 0-2), and does the library's own process hold it too
    let mut waits_on: Vec<(i64, i64)> = vec![]; // (fd, peer access mode)
    if blocked <= -2000 {
        // (blocked in write(fd): what it waits for is a reader of that pipe making room)
        waits_on.push((-2000 - blocked, 0));
    } else if blocked <= -1000 {
        waits_on.push((-1000 - blocked, 1));
    }
    let npoll = slog::BLOCKED_POLL[0].load(std::sync::atomic::Ordering::SeqCst);
    for i in 0..npoll as usize {
        let v = slog::BLOCKED_POLL[i + 1].load(std::sync::atomic::Ordering::SeqCst);
        let (fd, ev) = (v >> 16, v & 0xffff);
        waits_on.push((fd, if ev & libc::POLLOUT as i64 != 0 { 0 } else { 1 }));
    }
    let mut parent_io = vec![];
    for (fd, peer_acc) in waits_on {
        let ino = pipe_ino_of(me, fd);
        if ino == 0 {
            continue;
        }
        let mut peers: Vec<i32> = vec![];
        for pid in my_children() {
            if let Ok(rd) = fs::read_dir(format!("/proc/{}/fd", pid)) {
                for e in rd.flatten() {
                    let cfd: i64 = e.file_name().to_str().and_then(|s| s.parse().ok()).unwrap_or(-1);
                    if pipe_ino_of(pid, cfd) == ino {
                        let info = fs::read_to_string(format!("/proc/{}/fdinfo/{}", pid, cfd)).unwrap_or_default();
                        for l in info.lines() {
                            if let Some(x) = l.strip_prefix("flags:") {
                                if i64::from_str_radix(x.trim(), 8).unwrap_or(0) & 3 == peer_acc && !peers.contains(&pid) {
                                    peers.push(pid);
                                }
                            }
                        }
                    }
                }
            }
        }
        let self_peer = mine.iter().any(|(i, a)| *i == ino && *a == peer_acc);
        parent_io.push(json!([ino, peers, self_peer]));
    }
    for h in &holders {
        unsafe {
            crate::raw::kill(h[0].as_i64().unwrap() as i32, 9);
        }
    }
    // The library blocked reading a pipe whose writing end THIS process holds itself (a descriptor the library lost track
    // of): end-of-file can never come, whatever the children do.  Record that, and close those ends so that the call
    // returns and the run can go on.
    let mut self_deadlock = false;
    if blocked <= -1000 && blocked > -2000 {
        let rino = pipe_ino_of(me, -1000 - blocked);
        if rino != 0 {
            for e in fd_table() {
                let (fd, ino, acc) = (e[0].as_i64().unwrap_or(-1), e[1].as_i64().unwrap_or(0), e[2].as_i64().unwrap_or(0));
                if ino == rino && acc == 1 && fd >= 0 {
                    self_deadlock = true;
                    unsafe { crate::raw::close(fd as i32) };
                }
            }
        }
    }
    unsafe {
        (*std::ptr::addr_of_mut!(WATCHDOG)).push(json!({"e":"watchdog","holders":holders,"parent_waits":parent_waits,"parent_io":parent_io,
            "self_deadlock":self_deadlock}).to_string());
        slog::RECORDING = was_recording;
        slog::BLOCKED_IN.store(blocked, std::sync::atomic::Ordering::SeqCst);
    }
}

/// arm the per-scenario watchdog
pub fn watchdog_arm() {
    unsafe {
        libc::signal(libc::SIGALRM, on_alarm as usize);
        let tv = libc::itimerval {
            it_interval: libc::timeval { tv_sec: 3, tv_usec: 0 },
            it_value: libc::timeval { tv_sec: WATCHDOG_S as i64, tv_usec: 0 },
        };
        libc::setitimer(libc::ITIMER_REAL, &tv, std::ptr::null_mut());
    }
}
/// disarm; returns the watchdog events recorded
pub fn watchdog_disarm() -> Vec<String> {
    unsafe {
        let off: libc::itimerval = std::mem::zeroed();
        libc::setitimer(libc::ITIMER_REAL, &off, std::ptr::null_mut());
        (*std::ptr::addr_of_mut!(WATCHDOG)).drain(..).collect()
    }
}

pub fn kill_all_children() {
    // used after a scenario left a running child behind
    if let Ok(rd) = fs::read_dir("/proc") {
        let me = std::process::id();
        for e in rd.flatten() {
            if let Some(pid) = e.file_name().to_str().and_then(|s| s.parse::<i32>().ok()) {
                if let Ok(st) = fs::read_to_string(format!("/proc/{}/stat", pid)) {
                    if let Some(rest) = st.rsplit(')').next() {
                        let f: Vec<&str> = rest.split_whitespace().collect();
                        if f.len() > 2 && f[1].parse::<u32>().ok() == Some(me) {
                            unsafe {
                                crate::raw::kill(pid, 9);
                                let mut s = 0;
                                crate::raw::wait4(pid, &mut s, 0);
                            }
                        }
                    }
                }
            }
        }
    }
}

pub fn read_report(pid: u32) -> Option<Value> {
    let p = format!("{}/{}.json", vr(), pid);
    for _ in 0..200 {
        if let Ok(s) = fs::read_to_string(&p) {
            if let Ok(v) = serde_json::from_str::<Value>(&s) {
                let _ = fs::remove_file(&p);
                return Some(v);
            }
        }
        std::thread::sleep(std::time::Duration::from_millis(5));
    }
    None
}

pub fn compact_report(r: &Value) -> Value {
    let fds: Vec<Value> = r["fds"]
        .as_array()
        .unwrap()
        .iter()
        .map(|f| json!([f["fd"], f["ino"], f["acc"], f["pos"], f["cloexec"]]))
        .collect();
    json!({"e":"report","pid":r["pid"],"argv":r["argv"],"env":r["env"],"cwd":r["cwd"],"exe":r["exe"],
        "ruid":r["ruid"],"euid":r["euid"],"suid":r["suid"],"rgid":r["rgid"],"egid":r["egid"],"sgid":r["sgid"],
        "pgid_is_pid": r["pgid"] == r["pid"], "pgid_is_parent_pgid": r["pgid"].as_i64() == Some(unsafe { libc::getpgid(0) } as i64),
        "sigblk":r["sigblk"],"sigign":r["sigign"],
        "sigpipe_ignored": u64::from_str_radix(r["sigign"].as_str().unwrap_or("0"), 16).unwrap_or(0) & (1 << 12) != 0,
        "mask_empty": u64::from_str_radix(r["sigblk"].as_str().unwrap_or("0"), 16).unwrap_or(1) == 0,
        "fds":fds})
}

