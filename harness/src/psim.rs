//! Simulated process table + virtual clock for the child-lifecycle checks (ProcEnv.tla in Rust).
//! The library holds a real `Popen` of a real (inert) child; `waitpid`/`kill` on that pid and the
//! monotonic clock / sleeps are answered here, so the child's exit instant, external reaping and
//! pid reuse come from the scenario and time is exact and free.
use libc::c_int;
use serde_json::{json, Value};

pub const VPID: i64 = 1000; // how the child's pid is written in traces

#[derive(Clone, Debug, PartialEq)]
pub enum St {
    Running,
    Zombie,
    ReapedByUs,
    ReapedExt, // somebody else waited for it; the pid is free
    Alien,     // the pid now names an unrelated process
}

#[derive(Clone, Debug)]
pub struct Status {
    pub exited: bool,
    pub val: i32, // exit code or signal number
    pub core: bool, // killed by a signal, and the kernel wrote a core file (bit 0x80 of the wait status)
}
impl Status {
    pub fn raw(&self) -> c_int {
        if self.exited {
            (self.val & 0xff) << 8
        } else {
            (self.val & 0x7f) | if self.core { 0x80 } else { 0 }
        }
    }
    pub fn json(&self) -> Value {
        if self.exited {
            json!({"k":"exited","v":self.val})
        } else {
            json!({"k":"signaled","v":self.val})
        }
    }
}

pub struct PSim {
    pub real_pid: c_int,
    pub st: St,
    pub status: Option<Status>,
    pub now: u64,
    pub epoch: u64,
    pub exit_at: Option<(u64, Status)>, // scheduled spontaneous exit
    pub xreap_after: Option<u64>,       // external reap this long after the exit
    pub reuse_after: Option<u64>,       // pid reuse this long after the external reap
    pub ignores_term: bool,
    pub kill_latency: u64,
    pub overshoot: u64, // every sleep lasts this much longer than asked
    pub trace: Vec<String>,
    pub exit_time: Option<u64>,
    pub xreap_time: Option<u64>,
    pub sys_in_call: usize,
    pub unfolded: usize,
    pub runaway: bool,
    pub stopped: bool,       // job-control stop (SIGSTOP/SIGTSTP...): alive but not running
    pub stop_reported: bool, // a waitpid(WUNTRACED) has already reported this stop
    // run-length encoding of (waitpid -> 0, sleep d) pairs
    run_d: u64,
    run_n: u64,
    pend_wait: bool,
    /// environment script of a TLC-generated behaviour: "K" (the driver's next call / delay), "S" (a system call of
    /// the handle), "X" / "R" / "U" (the child exits / is reaped by somebody else / its pid is reused).  The
    /// environment steps are applied at the schedule point in front of which the model had them.
    pub script: Option<Vec<u8>>,
    pub spos: usize,
    pub script_exit: Option<Status>,
    pub script_drift: bool,
    /// ordinals (1-based, among the handle's waitpid calls of the scenario) that fail with EINTR
    pub eintr_at: Vec<u64>,
    pub nwaitpid: u64,
    /// virtual time that passes with every clock reading (time goes by while the library runs)
    pub clock_step: u64,
    /// signals keep arriving (a profiler, an interval timer): a sleep longer than this is cut short after this long,
    /// with EINTR and the remaining time reported -- at most `sleep_eintr_left` times
    /// (instant, step in ns): the wall clock (CLOCK_REALTIME) jumps by `step` at `instant`
    pub rt_jump: Option<(u64, i64)>,
    pub sleep_slice: u64,
    pub sleep_eintr_left: u32,
    /// thread that forked the child (waitpid with __WNOTHREAD only sees the calling thread's own children)
    pub creator_tid: i64,
}

pub static mut PSIM: Option<Box<PSim>> = None;
pub fn psim() -> Option<&'static mut PSim> {
    unsafe { (*std::ptr::addr_of_mut!(PSIM)).as_deref_mut() }
}

/// the thread on which the library's calls are made: only its system calls belong to the simulated world (the harness
/// itself waits, reads clocks and logs on other threads)
pub static DRIVER_TID: std::sync::atomic::AtomicI64 = std::sync::atomic::AtomicI64::new(0);
fn psim_of_driver() -> Option<&'static mut PSim> {
    let d = DRIVER_TID.load(std::sync::atomic::Ordering::SeqCst);
    if d != 0 && d != unsafe { libc::syscall(libc::SYS_gettid) } as i64 {
        return None;
    }
    psim()
}

pub fn tpair(ns: u64) -> Value {
    json!([ns / 1_000_000_000, ns % 1_000_000_000])
}

impl PSim {
    pub fn new(real_pid: c_int, epoch: u64) -> PSim {
        PSim {
            real_pid,
            st: St::Running,
            status: None,
            now: 0,
            epoch,
            exit_at: None,
            xreap_after: None,
            reuse_after: None,
            ignores_term: false,
            kill_latency: 0,
            overshoot: 0,
            trace: vec![],
            exit_time: None,
            xreap_time: None,
            sys_in_call: 0,
            unfolded: 0,
            runaway: false,
            stopped: false,
            stop_reported: false,
            run_d: 0,
            run_n: 0,
            pend_wait: false,
            script: None,
            spos: 0,
            script_exit: None,
            script_drift: false,
            eintr_at: vec![],
            nwaitpid: 0,
            clock_step: 0,
            rt_jump: None,
            sleep_slice: 0,
            sleep_eintr_left: 0,
            creator_tid: unsafe { libc::syscall(libc::SYS_gettid) } as i64,
        }
    }

    /// schedule point of class `class` (b'K' or b'S'): apply the scripted environment steps in front of it
    pub fn script_point(&mut self, class: u8) {
        let sc = match self.script.take() {
            Some(x) => x,
            None => return,
        };
        loop {
            match sc.get(self.spos).copied() {
                Some(b'X') => {
                    if self.st == St::Running {
                        let s = self.script_exit.clone().unwrap_or(Status { exited: true, val: 0, core: false });
                        self.st = St::Zombie;
                        self.status = Some(s.clone());
                        self.exit_time = Some(self.now);
                        self.log(json!({"e":"exit","st":s.json(),"at":tpair(self.now)}));
                    }
                }
                Some(b'R') => {
                    if self.st == St::Zombie {
                        self.st = St::ReapedExt;
                        self.xreap_time = Some(self.now);
                        self.log(json!({"e":"xreap","at":tpair(self.now)}));
                    }
                }
                Some(b'U') => {
                    if self.st == St::ReapedExt {
                        self.st = St::Alien;
                        self.log(json!({"e":"reuse","at":tpair(self.now)}));
                    }
                }
                Some(c) if c == class => {
                    self.spos += 1;
                    break;
                }
                Some(b'S') if class == b'K' => {
                    // the model expected another system call of the handle: the code made fewer
                    self.script_drift = true;
                }
                Some(_) => {
                    // the code makes a system call the model did not: leave the script where it is
                    self.script_drift = true;
                    break;
                }
                None => break,
            }
            self.spos += 1;
        }
        self.script = Some(sc);
    }

    fn flush_run(&mut self) {
        if self.run_n > 0 {
            let n = self.run_n;
            let d = self.run_d;
            self.run_n = 0;
            // the run ended at self.now (no environment event happened inside it)
            self.trace.push(json!({"e":"bk_run","n":n,"d":tpair(d),"now":tpair(self.now)}).to_string());
        }
        if self.pend_wait {
            self.pend_wait = false;
            self.trace.push(json!({"e":"waitpid","pid":VPID,"nohang":true,"ret":0}).to_string());
        }
    }

    pub fn log(&mut self, v: Value) {
        self.flush_run();
        self.trace.push(v.to_string());
    }

    /// apply every scheduled environment event due at or before the current instant
    fn env_due(&mut self) {
        loop {
            if self.st == St::Running {
                if let Some((t, s)) = self.exit_at.clone() {
                    if t <= self.now {
                        self.st = St::Zombie;
                        self.status = Some(s.clone());
                        self.exit_time = Some(t);
                        self.exit_at = None;
                        self.log(json!({"e":"exit","st":s.json(),"at":tpair(t)}));
                        continue;
                    }
                }
            }
            if self.st == St::Zombie {
                if let (Some(d), Some(te)) = (self.xreap_after, self.exit_time) {
                    if te + d <= self.now {
                        self.st = St::ReapedExt;
                        self.xreap_time = Some(te + d);
                        self.log(json!({"e":"xreap","at":tpair(te + d)}));
                        continue;
                    }
                }
            }
            if self.st == St::ReapedExt {
                if let (Some(d), Some(tr)) = (self.reuse_after, self.xreap_time) {
                    if tr + d <= self.now {
                        self.st = St::Alien;
                        self.log(json!({"e":"reuse","at":tpair(tr + d)}));
                        continue;
                    }
                }
            }
            break;
        }
    }

    /// next instant at which a scheduled environment event fires
    fn next_env(&self) -> Option<u64> {
        match self.st {
            St::Running => self.exit_at.as_ref().map(|x| x.0),
            St::Zombie => match (self.xreap_after, self.exit_time) {
                (Some(d), Some(te)) => Some(te + d),
                _ => None,
            },
            St::ReapedExt => match (self.reuse_after, self.xreap_time) {
                (Some(d), Some(tr)) => Some(tr + d),
                _ => None,
            },
            _ => None,
        }
    }

    pub fn advance(&mut self, to: u64) {
        // step through scheduled events so that each is applied at its own instant
        while let Some(t) = self.next_env() {
            if t > to {
                break;
            }
            if t > self.now {
                self.now = t;
            }
            self.env_due();
        }
        if to > self.now {
            self.now = to;
        }
        self.env_due();
    }

    fn count_sys(&mut self) {
        self.sys_in_call += 1;
        self.unfolded += 1;
        if self.unfolded == 30_000 && !self.runaway {
            // the library keeps issuing system calls without end: record it and let time fly so that
            // any deadline it may be waiting for passes
            self.runaway = true;
            self.log(json!({"e":"runaway"}));
        }
        if self.runaway {
            self.now += 40 * 86_400 * 1_000_000_000;
        }
        if self.unfolded >= 300_000 {
            // letting time fly did not end it: this call will never return.  Record that, tell the driver, and keep
            // the calling thread here for good (it is never heard of again; the driver abandons it).
            if !STUCK.swap(true, std::sync::atomic::Ordering::SeqCst) {
                self.log(json!({"e":"stuck"}));
            }
            loop {
                unsafe { libc::syscall(libc::SYS_pause) };
            }
        }
    }

    pub unsafe fn sys_waitpid(&mut self, status: *mut c_int, flags: c_int) -> c_int {
        self.count_sys();
        self.script_point(b'S');
        self.env_due();
        let nohang = flags & libc::WNOHANG != 0;
        self.nwaitpid += 1;
        if flags & 0x2000_0000 != 0 && unsafe { libc::syscall(libc::SYS_gettid) } as i64 != self.creator_tid {
            // __WNOTHREAD from a thread that did not fork the child: the kernel finds no such child
            self.log(json!({"e":"waitpid_nothread","pid":VPID,"nohang":nohang}));
            crate::raw::set_errno(libc::ECHILD);
            return -1;
        }
        if self.eintr_at.contains(&self.nwaitpid) {
            // a signal handler (installed without SA_RESTART) ran while the call was waiting
            self.log(json!({"e":"waitpid_eintr","pid":VPID,"nohang":nohang}));
            crate::raw::set_errno(libc::EINTR);
            return -1;
        }
        if self.st == St::Running && !nohang {
            match self.exit_at.clone() {
                Some((t, _)) => {
                    self.log(json!({"e":"wait_block"}));
                    self.advance(t);
                }
                None => {
                    // would block for ever: note it, then let the child die so the run can go on
                    self.log(json!({"e":"hang_wait"}));
                    self.exit_at = Some((self.now, Status { exited: false, val: 9, core: false }));
                    self.env_due();
                }
            }
        }
        if self.st == St::Running && self.stopped && !self.stop_reported && flags & libc::WUNTRACED != 0 {
            // a stopped (not terminated) child is reported to a waiter that asked for it
            self.stop_reported = true;
            if !status.is_null() {
                *status = 0x137f; // WIFSTOPPED, SIGSTOP
            }
            self.log(json!({"e":"waitpid","pid":VPID,"nohang":nohang,"ret":VPID,"st":{"k":"stopped","v":19},"untraced":true}));
            return self.real_pid;
        }
        match self.st {
            St::Running => {
                // nohang and still running: candidate for run-length encoding
                self.flush_wait_only();
                self.pend_wait = true;
                0
            }
            St::Zombie => {
                let s = self.status.clone().unwrap();
                if !status.is_null() {
                    *status = s.raw();
                }
                self.st = St::ReapedByUs;
                self.log(json!({"e":"waitpid","pid":VPID,"nohang":nohang,"ret":VPID,"st":s.json()}));
                self.real_pid
            }
            _ => {
                self.log(json!({"e":"waitpid","pid":VPID,"nohang":nohang,"ret":-1,"errno":libc::ECHILD}));
                crate::raw::set_errno(libc::ECHILD);
                -1
            }
        }
    }

    fn flush_wait_only(&mut self) {
        if self.pend_wait {
            // two waitpid in a row without a sleep: not a back-off pair
            self.flush_run();
        }
    }

    pub fn sys_kill(&mut self, sig: c_int) -> c_int {
        self.count_sys();
        self.script_point(b'S');
        self.env_due();
        let (ret, errno) = match self.st {
            St::Running => {
                let fatal = sig != 0 && sig != libc::SIGCHLD && sig != libc::SIGCONT && sig != libc::SIGURG
                    && sig != libc::SIGWINCH && sig != libc::SIGSTOP && sig != libc::SIGTSTP
                    && sig != libc::SIGTTIN && sig != libc::SIGTTOU && sig > 0 && sig < 65
                    && !(sig == libc::SIGTERM && self.ignores_term);
                if sig == libc::SIGSTOP || sig == libc::SIGTSTP || sig == libc::SIGTTIN || sig == libc::SIGTTOU {
                    self.stopped = true;
                    self.stop_reported = false;
                }
                if sig == libc::SIGCONT {
                    self.stopped = false;
                }
                if fatal && self.script.is_none() {
                    let t = self.now + self.kill_latency;
                    let sooner = self.exit_at.as_ref().map_or(true, |x| t < x.0);
                    if sooner {
                        self.exit_at = Some((t, Status { exited: false, val: sig, core: false }));
                    }
                }
                if sig < 0 || sig > 64 {
                    (-1, libc::EINVAL)
                } else {
                    (0, 0)
                }
            }
            St::Zombie | St::Alien => (0, 0),
            St::ReapedByUs | St::ReapedExt => (-1, libc::ESRCH),
        };
        let alien = self.st == St::Alien;
        self.log(json!({"e":"kill","pid":VPID,"sig":sig,"ret":ret,"errno":errno,"alien":alien}));
        self.env_due();
        if ret < 0 {
            crate::raw::set_errno(errno);
        }
        ret
    }

    pub fn sys_sleep(&mut self, d: u64) {
        self.count_sys();
        self.script_point(b'S');
        let to = self.now + d + self.overshoot;
        let quiet = self.next_env().map_or(true, |t| t > to);
        let ms = d / 1_000_000;
        let foldable = d > 0 && d < 1_000_000_000 && d % 1_000_000 == 0 && 1000 % ms == 0;
        if self.pend_wait && quiet && (self.run_n == 0 || (self.run_d == d && foldable)) && self.overshoot == 0 {
            // (waitpid -> 0, sleep d) with nothing happening: fold into the current run
            self.pend_wait = false;
            self.run_d = d;
            self.run_n += 1;
            self.now = to;
            self.unfolded = self.unfolded.saturating_sub(2); // folded pairs do not count as runaway
            return;
        }
        self.flush_run();
        self.advance(to);
        self.log(json!({"e":"sleep","d":tpair(d),"now":tpair(self.now)}));
    }

    pub fn other_pid_event(&mut self, what: &str, pid: c_int, arg: c_int) {
        let norm = pid as i64 - self.real_pid as i64 + VPID;
        self.log(json!({"e":what,"pid":norm,"sig":arg,"nohang":true,"ret":-1,"errno":0,"alien":false,"foreign":true}));
    }
}

unsafe fn h_waitpid(pid: c_int, status: *mut c_int, flags: c_int) -> Option<c_int> {
    let s = psim_of_driver()?;
    if pid == s.real_pid {
        return Some(s.sys_waitpid(status, flags));
    }
    // the library waits for something that is not its child: record, then pass through
    s.other_pid_event("waitpid_other", pid, flags);
    None
}
unsafe fn h_kill(pid: c_int, sig: c_int) -> Option<c_int> {
    let s = psim_of_driver()?;
    if pid == s.real_pid {
        return Some(s.sys_kill(sig));
    }
    s.other_pid_event("kill_other", pid, sig);
    // never let a stray signal out of the harness
    crate::raw::set_errno(libc::ESRCH);
    Some(-1)
}
unsafe fn h_clock_gettime(clk: libc::clockid_t, ts: *mut libc::timespec) -> Option<c_int> {
    let s = psim_of_driver()?;
    if clk == libc::CLOCK_REALTIME {
        // the wall clock: it runs with the virtual time, and may be stepped (NTP, `date -s`, a resumed VM) at one instant
        let (at, by) = s.rt_jump.unwrap_or((0, 0));
        let t = (1_700_000_000_000_000_000i64 + s.now as i64 + if s.now >= at { by } else { 0 }) as u64;
        (*ts).tv_sec = (t / 1_000_000_000) as libc::time_t;
        (*ts).tv_nsec = (t % 1_000_000_000) as libc::c_long;
        return Some(0);
    }
    if clk != libc::CLOCK_MONOTONIC && clk != libc::CLOCK_BOOTTIME {
        return None;
    }
    let t = s.epoch + s.now;
    (*ts).tv_sec = (t / 1_000_000_000) as libc::time_t;
    (*ts).tv_nsec = (t % 1_000_000_000) as libc::c_long;
    if s.clock_step > 0 {
        let to = s.now + s.clock_step;
        s.advance(to);
        s.log(json!({"e":"delay","now":tpair(s.now)}));
    }
    Some(0)
}
unsafe fn h_clock_nanosleep(
    _clk: libc::clockid_t,
    flags: c_int,
    req: *const libc::timespec,
    _rem: *mut libc::timespec,
) -> Option<c_int> {
    let s = psim_of_driver()?;
    let mut d = (*req).tv_sec as u64 * 1_000_000_000 + (*req).tv_nsec as u64;
    if flags & libc::TIMER_ABSTIME != 0 {
        d = d.saturating_sub(s.epoch + s.now);
    }
    if s.sleep_slice > 0 && d > s.sleep_slice && s.sleep_eintr_left > 0 {
        s.sleep_eintr_left -= 1;
        let slice = s.sleep_slice;
        s.sys_sleep(slice);
        if flags & libc::TIMER_ABSTIME == 0 && !_rem.is_null() {
            let left = d - slice;
            (*_rem).tv_sec = (left / 1_000_000_000) as libc::time_t;
            (*_rem).tv_nsec = (left % 1_000_000_000) as libc::c_long;
        }
        return Some(libc::EINTR);
    }
    s.sys_sleep(d);
    Some(0)
}

/// set when a call of the library was found to loop for ever (see count_sys)
pub static STUCK: std::sync::atomic::AtomicBool = std::sync::atomic::AtomicBool::new(false);

pub fn install() {
    let mut t = crate::hooks::EMPTY;
    t.waitpid = Some(h_waitpid);
    t.kill = Some(h_kill);
    t.clock_gettime = Some(h_clock_gettime);
    t.clock_nanosleep = Some(h_clock_nanosleep);
    crate::hooks::install(t);
}
