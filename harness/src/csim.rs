//! Simulated kernel for the communicate loop (Kernel/CommEnv.tla implemented in Rust):
//! up to three pipes between the library ("parent") and a scripted child with *committed*
//! blocking operations, a virtual monotonic clock, and a scheduler that decides which
//! environment steps happen before / while each library system call.
//!
//! Everything that happens is appended to the trace as one NDJSON event, in units (see units.rs).

use crate::units::*;
use libc::{c_int, c_void};
use serde_json::{json, Value};
use std::collections::VecDeque;

pub const PIPE_BUF: usize = 4096;

#[derive(Clone, Debug)]
pub enum COp {
    Rd(usize),        // read up to n units from stdin
    Wr(usize, usize), // write n units to stream s
    Close(usize),
    Sleep(u64), // ns
    Exit,
    Flood(usize), // write 1 chunk (PIPE_BUF) to stream s, forever (re-commits itself)
}

#[derive(Clone, Debug)]
pub struct CallSpec {
    pub limit: Option<usize>, // units; None = leave as is
    pub tlim: Option<u64>,    // ns; None = leave as is
}

#[derive(Clone, Debug)]
pub struct Scenario {
    pub id: String,
    pub piped: [bool; 3],
    pub unit: usize,
    pub cap_units: usize,
    pub input_units: usize,
    pub child: Vec<COp>,
    pub calls: Vec<CallSpec>,
    pub short_io: bool,
    pub slots: bool, // linux slot model instead of posix byte model
}

impl Scenario {
    pub fn from_json(v: &Value) -> Scenario {
        let piped_l: Vec<String> = v["piped"]
            .as_array()
            .unwrap()
            .iter()
            .map(|x| x.as_str().unwrap().to_string())
            .collect();
        let sidx = |s: &str| SNAME.iter().position(|x| *x == s).unwrap();
        let mut piped = [false; 3];
        for p in &piped_l {
            piped[sidx(p)] = true;
        }
        let child = v["child"]
            .as_array()
            .unwrap()
            .iter()
            .map(|o| {
                let a = o.as_array().unwrap();
                match a[0].as_str().unwrap() {
                    "rd" => COp::Rd(a[1].as_u64().unwrap() as usize),
                    "wr" => COp::Wr(sidx(a[1].as_str().unwrap()), a[2].as_u64().unwrap() as usize),
                    "close" => COp::Close(sidx(a[1].as_str().unwrap())),
                    "sleep" => COp::Sleep(a[1].as_u64().unwrap()),
                    "exit" => COp::Exit,
                    "flood" => COp::Flood(sidx(a[1].as_str().unwrap())),
                    x => panic!("bad child op {}", x),
                }
            })
            .collect();
        let calls = v["calls"]
            .as_array()
            .unwrap()
            .iter()
            .map(|c| CallSpec {
                limit: c["limit"].as_u64().map(|x| x as usize),
                tlim: c["tlim"].as_u64(),
            })
            .collect();
        Scenario {
            id: v["id"].as_str().unwrap_or("?").to_string(),
            piped,
            unit: v["unit"].as_u64().unwrap() as usize,
            cap_units: v["cap"].as_u64().unwrap() as usize,
            input_units: v["input"].as_u64().unwrap_or(0) as usize,
            child,
            calls,
            short_io: v["short"].as_bool().unwrap_or(false),
            slots: v["slots"].as_bool().unwrap_or(false),
        }
    }
    pub fn k(&self) -> usize {
        PIPE_BUF / self.unit
    }
}

/// Source of scheduling decisions: a scripted prefix, then a fallback policy.
pub struct Chooser {
    pub script: Vec<u32>,
    pub pos: usize,
    pub rng: Option<Rng>, // None => always option 0 after the script
    pub taken: Vec<u32>,
    pub width: Vec<u32>,
}
impl Chooser {
    pub fn new(script: Vec<u32>, rng: Option<Rng>) -> Chooser {
        Chooser { script, pos: 0, rng, taken: vec![], width: vec![] }
    }
    /// pick one of `weights.len()` options (weights only used by the random fallback)
    pub fn pick(&mut self, weights: &[u32]) -> usize {
        let n = weights.len();
        let c = if self.pos < self.script.len() {
            (self.script[self.pos] as usize).min(n - 1)
        } else if let Some(r) = self.rng.as_mut() {
            let tot: u32 = weights.iter().sum();
            let mut x = (r.next() % tot as u64) as u32;
            let mut i = 0;
            while x >= weights[i] {
                x -= weights[i];
                i += 1;
            }
            i
        } else {
            0
        };
        self.pos += 1;
        self.taken.push(c as u32);
        self.width.push(n as u32);
        c
    }
}

#[derive(Debug)]
struct Pipe {
    buf: VecDeque<u8>,
    cap: usize,
    p_open: bool,
    c_open: bool,
    fd: c_int, // parent's descriptor (a real /dev/null descriptor reserved for the simulation)
}

#[derive(Debug, Clone)]
enum Pend {
    Rd(usize),
    Wr { s: usize, left: usize, total: usize },
    Close(usize),
    Sleep(u64), // until
    Exit,
}

pub struct Sim {
    pub sc: Scenario,
    pipes: [Option<Pipe>; 3],
    pub now: u64,       // ns since scenario start
    pub epoch: u64,     // absolute virtual ns at scenario start
    c_pc: usize,
    c_pend: Option<Pend>,
    c_alive: bool,
    c_wpos: [usize; 3], // units written so far by the child per stream
    pub ch: Chooser,
    pub trace: Vec<String>,
    pub deadline: Option<u64>, // of the current API call (for tick menus)
    pub psys: usize,           // parent system calls in this scenario
    pub budget: usize,
    pub dead: bool, // stuck or runaway: every further simulated call fails with EIO
    pub unrepresentable: bool,
}

pub static mut SIM: Option<Box<Sim>> = None;
pub fn sim() -> Option<&'static mut Sim> {
    unsafe { (*std::ptr::addr_of_mut!(SIM)).as_deref_mut() }
}

fn tpair(ns: u64) -> Value {
    json!([ns / 1_000_000_000, ns % 1_000_000_000])
}

impl Sim {
    pub fn new(sc: Scenario, ch: Chooser, epoch: u64) -> Sim {
        Sim {
            sc,
            pipes: [None, None, None],
            now: 0,
            epoch,
            c_pc: 0,
            c_pend: None,
            c_alive: true,
            c_wpos: [0; 3],
            ch,
            trace: vec![],
            deadline: None,
            psys: 0,
            budget: 600,
            dead: false,
            unrepresentable: false,
        }
    }

    pub fn log(&mut self, v: Value) {
        self.trace.push(v.to_string());
    }

    /// create the pipes; returns the parent's descriptors (in, out, err)
    pub fn open_pipes(&mut self) -> [Option<c_int>; 3] {
        let mut r = [None; 3];
        for s in 0..3 {
            if self.sc.piped[s] {
                let fd = unsafe {
                    crate::raw::open(b"/dev/null\0".as_ptr() as *const _, libc::O_RDWR | libc::O_CLOEXEC, 0)
                };
                assert!(fd >= 0);
                self.pipes[s] = Some(Pipe {
                    buf: VecDeque::new(),
                    cap: self.sc.cap_units * self.sc.unit,
                    p_open: true,
                    c_open: true,
                    fd,
                });
                r[s] = Some(fd);
            }
        }
        let piped: Vec<&str> = (0..3).filter(|s| self.sc.piped[*s]).map(|s| SNAME[s]).collect();
        let input = decode(&stream_bytes(IN, self.sc.unit, 1, self.sc.input_units), self.sc.unit);
        let ev = json!({"e":"reset","id":self.sc.id,"piped":piped,"cap":self.sc.cap_units,
            "k":self.sc.k(),"input":input,"short":self.sc.short_io,"slots":self.sc.slots,
            "flood":self.sc.child.iter().any(|o| matches!(o, COp::Flood(_)))});
        self.log(ev);
        r
    }

    pub fn stream_of_fd(&self, fd: c_int) -> Option<usize> {
        (0..3).find(|s| matches!(&self.pipes[*s], Some(p) if p.fd == fd && p.p_open))
    }

    fn units(&mut self, nbytes: usize) -> usize {
        if nbytes % self.sc.unit != 0 {
            self.unrepresentable = true;
        }
        nbytes / self.sc.unit
    }

    // ---------------------------------------------------------------- kernel readiness

    fn free(&self, s: usize) -> usize {
        let p = self.pipes[s].as_ref().unwrap();
        p.cap - p.buf.len()
    }

    /// can a writer add data without blocking, as reported by poll (POLLOUT)
    fn pollout(&self, s: usize) -> bool {
        let p = self.pipes[s].as_ref().unwrap();
        if self.sc.slots {
            // Linux: a free page slot exists
            let slots = p.cap / PIPE_BUF;
            let used = (p.buf.len() + PIPE_BUF - 1) / PIPE_BUF;
            used < slots
        } else {
            p.cap - p.buf.len() >= PIPE_BUF
        }
    }

    fn revents(&self, s: usize) -> i16 {
        let p = self.pipes[s].as_ref().unwrap();
        let mut r = 0;
        if s == IN {
            if self.pollout(s) {
                r |= libc::POLLOUT;
            }
            if !p.c_open {
                r |= libc::POLLERR;
            }
        } else {
            if !p.buf.is_empty() {
                r |= libc::POLLIN;
            }
            if !p.c_open {
                r |= libc::POLLHUP;
            }
        }
        r
    }

    // ---------------------------------------------------------------- child

    fn child_close_all(&mut self) {
        for s in 0..3 {
            if let Some(p) = self.pipes[s].as_mut() {
                p.c_open = false;
            }
        }
    }

    fn child_can_step(&self) -> bool {
        if !self.c_alive {
            return false;
        }
        match &self.c_pend {
            None => true,
            Some(Pend::Rd(_)) => match &self.pipes[IN] {
                None => true,
                Some(p) => !p.c_open || !p.buf.is_empty() || !p.p_open,
            },
            Some(Pend::Wr { s, left, total }) => match &self.pipes[*s] {
                None => true,
                Some(p) => {
                    if !p.c_open || !p.p_open {
                        true
                    } else if *total <= PIPE_BUF {
                        p.cap - p.buf.len() >= *left
                    } else {
                        p.cap > p.buf.len()
                    }
                }
            },
            Some(Pend::Close(_)) | Some(Pend::Exit) => true,
            Some(Pend::Sleep(until)) => self.now >= *until,
        }
    }

    fn child_sleeping_until(&self) -> Option<u64> {
        if !self.c_alive {
            return None;
        }
        match &self.c_pend {
            Some(Pend::Sleep(u)) if self.now < *u => Some(*u),
            _ => None,
        }
    }

    /// one child step: commit the next operation if none is pending, otherwise make progress on
    /// the pending one.  Returns false if nothing could happen.
    fn child_step(&mut self) -> bool {
        if !self.c_alive {
            return false;
        }
        let unit = self.sc.unit;
        if self.c_pend.is_none() {
            let op = if self.c_pc < self.sc.child.len() {
                let o = self.sc.child[self.c_pc].clone();
                if !matches!(o, COp::Flood(_)) {
                    self.c_pc += 1;
                }
                o
            } else {
                COp::Exit
            };
            let (pend, ev) = match op {
                COp::Rd(n) => (Pend::Rd(n * unit), json!({"e":"c_commit","op":"rd","n":n})),
                COp::Wr(s, n) => {
                    let ids = decode(&stream_bytes(s, unit, self.c_wpos[s] + 1, n), unit);
                    (
                        Pend::Wr { s, left: n * unit, total: n * unit },
                        json!({"e":"c_commit","op":"wr","s":SNAME[s],"ids":ids}),
                    )
                }
                COp::Flood(s) => {
                    let n = PIPE_BUF / unit;
                    let ids = decode(&stream_bytes(s, unit, self.c_wpos[s] + 1, n), unit);
                    (
                        Pend::Wr { s, left: n * unit, total: n * unit },
                        json!({"e":"c_commit","op":"wr","s":SNAME[s],"ids":ids}),
                    )
                }
                COp::Close(s) => (Pend::Close(s), json!({"e":"c_commit","op":"close","s":SNAME[s]})),
                COp::Sleep(d) => (
                    Pend::Sleep(self.now + d),
                    json!({"e":"c_commit","op":"sleep","until":tpair(self.now + d)}),
                ),
                COp::Exit => (Pend::Exit, json!({"e":"c_commit","op":"exit"})),
            };
            self.c_pend = Some(pend);
            self.log(ev);
            return true;
        }
        if !self.child_can_step() {
            return false;
        }
        match self.c_pend.clone().unwrap() {
            Pend::Rd(n) => {
                let ev = match self.pipes[IN].as_mut() {
                    None => json!({"e":"c_rd","ids":[],"eof":true}),
                    Some(p) if !p.c_open => json!({"e":"c_rd","ids":[],"eof":true}),
                    Some(p) => {
                        if p.buf.is_empty() {
                            json!({"e":"c_rd","ids":[],"eof":true})
                        } else {
                            let m = n.min(p.buf.len());
                            let got: Vec<u8> = p.buf.drain(..m).collect();
                            json!({"e":"c_rd","ids":decode(&got, unit),"eof":false})
                        }
                    }
                };
                self.log(ev);
                self.c_pend = None;
            }
            Pend::Wr { s, left, total } => {
                let wpos = self.c_wpos[s];
                match self.pipes[s].as_mut() {
                    None => {
                        self.c_wpos[s] += left / unit;
                        self.c_pend = None;
                        self.log(json!({"e":"c_wr","s":SNAME[s],"ids":[],"done":true}));
                    }
                    Some(p) if !p.c_open => {
                        // writing to a descriptor the child closed itself: EBADF, ignored
                        self.c_wpos[s] += left / unit;
                        self.c_pend = None;
                        self.log(json!({"e":"c_wr","s":SNAME[s],"ids":[],"done":true}));
                    }
                    Some(p) if !p.p_open => {
                        // reader gone: SIGPIPE kills the child
                        self.c_pend = None;
                        self.c_alive = false;
                        self.child_close_all();
                        self.log(json!({"e":"c_epipe","s":SNAME[s]}));
                    }
                    Some(p) => {
                        let free = p.cap - p.buf.len();
                        let m = if total <= PIPE_BUF { left } else { left.min(free) };
                        let bytes = stream_bytes(s, unit, wpos + 1, m / unit);
                        p.buf.extend(bytes.iter());
                        self.c_wpos[s] += m / unit;
                        let done = m == left;
                        let ids = decode(&bytes, unit);
                        self.c_pend = if done { None } else { Some(Pend::Wr { s, left: left - m, total }) };
                        self.log(json!({"e":"c_wr","s":SNAME[s],"ids":ids,"done":done}));
                    }
                }
            }
            Pend::Close(s) => {
                if let Some(p) = self.pipes[s].as_mut() {
                    p.c_open = false;
                }
                self.c_pend = None;
                self.log(json!({"e":"c_close","s":SNAME[s]}));
            }
            Pend::Sleep(_) => {
                self.c_pend = None;
                self.log(json!({"e":"c_wake"}));
            }
            Pend::Exit => {
                self.child_close_all();
                self.c_alive = false;
                self.c_pend = None;
                self.log(json!({"e":"c_exit"}));
            }
        }
        true
    }

    fn tick_to(&mut self, t: u64) {
        if t > self.now {
            self.now = t;
            self.log(json!({"e":"tick","now":tpair(t)}));
        }
    }

    // ---------------------------------------------------------------- scheduling

    /// environment steps that happen before the library's next system call takes effect
    fn pre_phase(&mut self) {
        for _ in 0..3 {
            // options: 0 go, 1 child step, 2.. ticks
            let mut w: Vec<u32> = vec![45];
            let child_ok = self.c_alive && (self.c_pend.is_none() || self.child_can_step());
            w.push(if child_ok { 40 } else { 0 });
            let mut ticks: Vec<u64> = vec![];
            if let Some(d) = self.deadline {
                ticks.push(self.now + 100_000);
                ticks.push(self.now + 1_000_000);
                if d > self.now + 1 {
                    ticks.push(d - 1);
                }
                if d > self.now {
                    ticks.push(d);
                }
                for _ in &ticks {
                    w.push(4);
                }
            }
            // scripted choosers may name a disabled option; treat it as "go"
            let c = self.ch.pick(&w);
            if c == 0 {
                break;
            } else if c == 1 {
                if !child_ok || !self.child_step() {
                    break;
                }
            } else {
                let t = ticks[c - 2];
                self.tick_to(t);
            }
        }
    }

    /// The library is blocked in a system call.  Let the environment move; returns false if
    /// nothing can ever happen (deadlock) — `until` is the instant a poll timeout expires.
    /// Returns Some(true) after an environment step, Some(false) when the timeout fired.
    fn blocked_step(&mut self, until: Option<u64>) -> Option<bool> {
        let can = self.child_can_step();
        let wake = self.child_sleeping_until();
        let mut opts: Vec<u8> = vec![];
        let mut w: Vec<u32> = vec![];
        if can {
            opts.push(0);
            w.push(60);
        }
        if let Some(u) = wake {
            if until.map_or(true, |d| u <= d) {
                opts.push(1);
                w.push(30);
            }
        }
        if until.is_some() {
            opts.push(2);
            w.push(if can { 15 } else { 40 });
        }
        if opts.is_empty() {
            return None;
        }
        let c = if opts.len() == 1 { 0 } else { self.ch.pick(&w) };
        match opts[c] {
            0 => {
                self.child_step();
                Some(true)
            }
            1 => {
                self.tick_to(wake.unwrap());
                self.child_step();
                Some(true)
            }
            _ => {
                self.tick_to(until.unwrap());
                Some(false)
            }
        }
    }

    fn enter(&mut self) -> bool {
        if self.dead {
            return false;
        }
        self.psys += 1;
        if self.psys > self.budget {
            self.log(json!({"e":"runaway","n":self.psys}));
            self.dead = true;
            return false;
        }
        self.pre_phase();
        true
    }

    fn stuck(&mut self, what: &str, timer: bool) {
        self.log(json!({"e":"stuck","sys":what,"timer":timer}));
        self.dead = true;
    }

    // ---------------------------------------------------------------- parent system calls

    pub unsafe fn sys_poll(&mut self, fds: *mut libc::pollfd, n: usize, timeout: c_int) -> c_int {
        let arr = std::slice::from_raw_parts_mut(fds, n);
        let mut polled: Vec<(usize, usize)> = vec![]; // (index, stream)
        for (i, f) in arr.iter_mut().enumerate() {
            f.revents = 0;
            if f.fd >= 0 {
                match self.stream_of_fd(f.fd) {
                    Some(s) => polled.push((i, s)),
                    None => {
                        f.revents = libc::POLLNVAL;
                    }
                }
            }
        }
        if !self.enter() {
            crate::raw::set_errno(libc::EIO);
            return -1;
        }
        let t0 = self.now;
        let until = if timeout < 0 { None } else { Some(t0 + timeout as u64 * 1_000_000) };
        let names: Vec<&str> = polled.iter().map(|(_, s)| SNAME[*s]).collect();
        let mut blocked = false;
        loop {
            let mut cnt = 0;
            let mut rev: Vec<Value> = vec![];
            for (i, s) in &polled {
                let wanted = arr[*i].events | libc::POLLERR | libc::POLLHUP;
                let r = self.revents(*s) & wanted;
                arr[*i].revents = r;
                if r != 0 {
                    cnt += 1;
                }
                let mut l = vec![];
                if r & libc::POLLIN != 0 {
                    l.push("IN");
                }
                if r & libc::POLLOUT != 0 {
                    l.push("OUT");
                }
                if r & libc::POLLHUP != 0 {
                    l.push("HUP");
                }
                if r & libc::POLLERR != 0 {
                    l.push("ERR");
                }
                rev.push(json!(l));
            }
            let expired = until.map_or(false, |u| self.now >= u);
            if cnt > 0 || expired {
                self.log(json!({"e":"p_poll","fds":names,"tmo":timeout,"t0":tpair(t0),
                    "rev":rev,"now":tpair(self.now)}));
                return cnt;
            }
            if !blocked {
                blocked = true;
                self.log(json!({"e":"p_block","sys":"poll","fds":names,"tmo":timeout}));
            }
            if self.blocked_step(until).is_none() {
                self.stuck("poll", until.is_some());
                crate::raw::set_errno(libc::EIO);
                return -1;
            }
        }
    }

    pub unsafe fn sys_read(&mut self, s: usize, buf: *mut c_void, n: usize) -> isize {
        if !self.enter() {
            crate::raw::set_errno(libc::EIO);
            return -1;
        }
        let unit = self.sc.unit;
        let want = self.units(n);
        let mut blocked = false;
        loop {
            let p = self.pipes[s].as_ref().unwrap();
            if !p.buf.is_empty() || !p.c_open || n == 0 {
                break;
            }
            if !blocked {
                blocked = true;
                self.log(json!({"e":"p_block","sys":"read","s":SNAME[s]}));
            }
            if self.blocked_step(None).is_none() {
                self.stuck("read", false);
                crate::raw::set_errno(libc::EIO);
                return -1;
            }
        }
        let avail = self.pipes[s].as_ref().unwrap().buf.len();
        let mut m = n.min(avail);
        if self.sc.short_io && m > unit {
            let maxu = m / unit;
            let w: Vec<u32> = (0..maxu).map(|i| if i + 1 == maxu { 50 } else { 10 }).collect();
            m = (self.ch.pick(&w) + 1) * unit;
        }
        let p = self.pipes[s].as_mut().unwrap();
        let got: Vec<u8> = p.buf.drain(..m).collect();
        std::ptr::copy_nonoverlapping(got.as_ptr(), buf as *mut u8, m);
        self.log(json!({"e":"p_read","s":SNAME[s],"want":want,"ids":decode(&got, unit)}));
        m as isize
    }

    pub unsafe fn sys_write(&mut self, s: usize, buf: *const c_void, n: usize) -> isize {
        if !self.enter() {
            crate::raw::set_errno(libc::EIO);
            return -1;
        }
        let unit = self.sc.unit;
        let data = std::slice::from_raw_parts(buf as *const u8, n);
        let ids = decode(data, unit);
        self.units(n);
        if n == 0 {
            // Linux: a zero-length write to a pipe returns 0 whatever the state of the pipe
            self.log(json!({"e":"p_write","ids":[],"n":0}));
            return 0;
        }
        let mut done = 0usize;
        let mut blocked = false;
        loop {
            let p = self.pipes[s].as_mut().unwrap();
            if !p.c_open {
                if done > 0 {
                    break;
                }
                self.log(json!({"e":"p_write","ids":ids,"n":-1,"err":"EPIPE"}));
                crate::raw::set_errno(libc::EPIPE);
                return -1;
            }
            let free = p.cap - p.buf.len();
            let left = n - done;
            if left == 0 {
                break;
            }
            if n <= PIPE_BUF {
                if free >= left {
                    let mut m = left;
                    if self.sc.short_io && m > unit {
                        let maxu = m / unit;
                        let w: Vec<u32> = (0..maxu).map(|i| if i + 1 == maxu { 50 } else { 10 }).collect();
                        m = (self.ch.pick(&w) + 1) * unit;
                    }
                    let p = self.pipes[s].as_mut().unwrap();
                    p.buf.extend(data[done..done + m].iter());
                    done += m;
                    break;
                }
            } else if free > 0 {
                let m = left.min(free);
                p.buf.extend(data[done..done + m].iter());
                let part = decode(&data[done..done + m], unit);
                done += m;
                if done == n {
                    break;
                }
                self.log(json!({"e":"p_wpart","ids":part}));
                continue;
            }
            if !blocked {
                blocked = true;
                self.log(json!({"e":"p_block","sys":"write","s":SNAME[s]}));
            }
            if self.blocked_step(None).is_none() {
                self.stuck("write", false);
                crate::raw::set_errno(libc::EIO);
                return -1;
            }
        }
        let nu = self.units(done);
        self.log(json!({"e":"p_write","ids":ids,"n":nu}));
        done as isize
    }

    pub fn sys_close(&mut self, s: usize) {
        if !self.dead {
            self.pre_phase();
        }
        let p = self.pipes[s].as_mut().unwrap();
        p.p_open = false;
        let fd = p.fd;
        unsafe { crate::raw::close(fd) };
        self.log(json!({"e":"p_close","s":SNAME[s]}));
    }

    /// After the last API call: let the child run to completion (or block for good) so that the
    /// final kernel state is part of the trace.
    pub fn drain_child(&mut self) {
        let mut n = 0;
        while n < 200 {
            if self.child_can_step() {
                self.child_step();
            } else if let Some(u) = self.child_sleeping_until() {
                self.tick_to(u);
            } else {
                break;
            }
            n += 1;
        }
    }

    pub fn any_parent_end_open(&self) -> Vec<usize> {
        (0..3).filter(|s| matches!(&self.pipes[*s], Some(p) if p.p_open)).collect()
    }
    pub fn now_pair(&self) -> Value {
        tpair(self.now)
    }
}

// -------------------------------------------------------------------- hook functions

unsafe fn h_read(fd: c_int, buf: *mut c_void, n: usize) -> Option<isize> {
    let sim = sim()?;
    let s = sim.stream_of_fd(fd)?;
    Some(sim.sys_read(s, buf, n))
}
unsafe fn h_write(fd: c_int, buf: *const c_void, n: usize) -> Option<isize> {
    let sim = sim()?;
    let s = sim.stream_of_fd(fd)?;
    Some(sim.sys_write(s, buf, n))
}
unsafe fn h_close(fd: c_int) -> Option<c_int> {
    let sim = sim()?;
    let s = sim.stream_of_fd(fd)?;
    sim.sys_close(s);
    Some(0)
}
unsafe fn h_poll(fds: *mut libc::pollfd, n: libc::nfds_t, t: c_int) -> Option<c_int> {
    let sim = sim()?;
    let arr = std::slice::from_raw_parts(fds, n as usize);
    if !arr.iter().any(|f| f.fd >= 0 && sim.stream_of_fd(f.fd).is_some()) {
        return None;
    }
    Some(sim.sys_poll(fds, n as usize, t))
}
unsafe fn h_clock_gettime(clk: libc::clockid_t, ts: *mut libc::timespec) -> Option<c_int> {
    let sim = sim()?;
    if clk != libc::CLOCK_MONOTONIC && clk != libc::CLOCK_BOOTTIME {
        return None;
    }
    let t = sim.epoch + sim.now;
    (*ts).tv_sec = (t / 1_000_000_000) as libc::time_t;
    (*ts).tv_nsec = (t % 1_000_000_000) as libc::c_long;
    Some(0)
}

pub fn install() {
    let mut t = crate::hooks::EMPTY;
    t.read = Some(h_read);
    t.write = Some(h_write);
    t.close = Some(h_close);
    t.poll = Some(h_poll);
    t.clock_gettime = Some(h_clock_gettime);
    crate::hooks::install(t);
}
