//! The thread-based communicator (`#[cfg(windows)] mod raw` of /repo/src/communicate.rs) is pure std (File, thread,
//! mpsc).  Take the CURRENT text of the whole file, cut the `#[cfg(unix)] mod raw { .. }` block out and un-gate the
//! Windows one, so that the real `Communicator` runs on Linux pipes with the Windows implementation underneath.
//! This lives in a package of its own: if the extracted text does not compile here, only this engine is lost.
use std::env;
use std::fs;
use std::path::Path;

fn main() {
    let out = env::var("OUT_DIR").unwrap();
    let csrc = fs::read_to_string("/repo/src/communicate.rs").unwrap_or_default();
    let wc = (|| -> Option<String> {
        let u = csrc.find("#[cfg(unix)]\nmod raw {")?;
        let w = csrc.find("#[cfg(windows)]\nmod raw {")?;
        if w < u {
            return None;
        }
        let mut s = String::new();
        s.push_str(&csrc[..u]);
        s.push_str(&csrc[w + "#[cfg(windows)]\n".len()..]);
        Some(s)
    })();
    let ok = wc.is_some();
    let mut code = wc.unwrap_or_default();
    code.push_str(&format!("\npub const EXTRACTED: bool = {};\n", ok));
    if !ok {
        code.push_str("pub struct Communicator;\n");
    }
    fs::write(Path::new(&out).join("win_comm.rs"), code).unwrap();
    println!("cargo:rerun-if-changed=/repo/src/communicate.rs");
    println!("cargo:rerun-if-changed=build.rs");
}
