//! Runs the thread-based communicator of /repo/src/communicate.rs (the `cfg(windows)` RawCommunicator, extracted
//! from the current source text by build.rs) on Linux pipes against the scripted reporting child, on the real
//! kernel, and records every read() call / return with what it delivered (checked byte by byte against the
//! position-dependent stream content) plus the child's own account of what it received, wrote and when.
//! The records are validated by TLC against CommApiTrace.tla.
//!
//! usage: commwin_replay <scenarios.ndjson> <trace-out.ndjson>
use serde_json::{json, Value};
use simk::units::pat;
use std::fs::File;
use std::io::{BufRead, BufReader, Write};
use std::panic::{catch_unwind, AssertUnwindSafe};
use std::sync::mpsc;
use std::time::Duration;
use subprocess::{Popen, PopenConfig, Redirection};

#[allow(dead_code, unused_imports, clippy::all)]
mod wincomm {
    include!(concat!(env!("OUT_DIR"), "/win_comm.rs"));
}

/// the communicator under test: the thread-based one extracted from the source text, or the library's own
/// (poll()-based on this platform) -- the same scenarios, the same records, the real kernel in both cases
enum AnyComm {
    Win(wincomm::Communicator),
    Unix(subprocess::Communicator),
}
type Capture = (Option<Vec<u8>>, Option<Vec<u8>>);
impl AnyComm {
    fn limit_size(self, n: usize) -> AnyComm {
        match self {
            AnyComm::Win(c) => AnyComm::Win(c.limit_size(n)),
            AnyComm::Unix(c) => AnyComm::Unix(c.limit_size(n)),
        }
    }
    fn limit_time(self, d: Duration) -> AnyComm {
        match self {
            AnyComm::Win(c) => AnyComm::Win(c.limit_time(d)),
            AnyComm::Unix(c) => AnyComm::Unix(c.limit_time(d)),
        }
    }
    fn read(&mut self) -> Result<Capture, (std::io::ErrorKind, String, Capture)> {
        match self {
            AnyComm::Win(c) => c.read().map_err(|e| (e.kind(), e.to_string(), e.capture)),
            AnyComm::Unix(c) => c.read().map_err(|e| (e.kind(), e.to_string(), e.capture)),
        }
    }
}

fn now_ns() -> u64 {
    let mut ts: libc::timespec = unsafe { std::mem::zeroed() };
    unsafe { simk::raw::clock_gettime(libc::CLOCK_MONOTONIC, &mut ts) };
    ts.tv_sec as u64 * 1_000_000_000 + ts.tv_nsec as u64
}

// Schedule control: the communicator's main thread reads the clock right before it waits for the next message
// (recv_timeout(deadline - now)).  A scenario may ask for the thread to be held up there for a while -- a
// preemption at that point, which gives both reader threads the time to have their next message waiting.
thread_local! {
    static HOLD_US: std::cell::Cell<u64> = std::cell::Cell::new(0);
}
#[no_mangle]
pub unsafe extern "C" fn clock_gettime(clk: libc::clockid_t, ts: *mut libc::timespec) -> libc::c_int {
    let us = HOLD_US.try_with(|h| h.get()).unwrap_or(0);
    if us > 0 {
        let req = libc::timespec { tv_sec: 0, tv_nsec: (us * 1000) as libc::c_long };
        simk::raw::clock_nanosleep(libc::CLOCK_MONOTONIC, 0, &req, std::ptr::null_mut());
    }
    simk::raw::clock_gettime(clk, ts)
}
fn tp(ns: u64) -> Value {
    json!([ns / 1_000_000_000, ns % 1_000_000_000])
}

/// does `data` equal the stream content of stream `s` at offset `off`?
fn content_ok(s: usize, off: u64, data: &[u8]) -> bool {
    data.iter().enumerate().all(|(j, b)| *b == pat(s, off + j as u64))
}

fn child_state(pid: u32) -> (String, String) {
    let stat = std::fs::read_to_string(format!("/proc/{}/stat", pid)).unwrap_or_default();
    let st = stat.rsplit(')').next().unwrap_or("").split_whitespace().next().unwrap_or("?").to_string();
    let wchan = std::fs::read_to_string(format!("/proc/{}/wchan", pid)).unwrap_or_default();
    let sys = std::fs::read_to_string(format!("/proc/{}/syscall", pid)).unwrap_or_default();
    (st, format!("{} {}", wchan.trim(), sys.split_whitespace().take(2).collect::<Vec<_>>().join(" ")))
}

fn run_one(v: &Value, vchild: &str, out: &mut Vec<String>) {
    let id = v["id"].as_str().unwrap_or("?").to_string();
    let piped: Vec<String> = v["piped"].as_array().unwrap().iter().map(|x| x.as_str().unwrap().to_string()).collect();
    let has = |s: &str| piped.iter().any(|x| x == s);
    let inlen = v["input"].as_u64().unwrap_or(0);
    let mut argv: Vec<String> = vec![vchild.to_string(), "@pscript".to_string()];
    for op in v["child"].as_array().unwrap() {
        argv.push(op.as_str().unwrap().to_string());
    }
    let devnull = || Redirection::File(std::fs::OpenOptions::new().read(true).write(true).open("/dev/null").unwrap());
    let cfg = PopenConfig {
        stdin: if has("in") { Redirection::Pipe } else { devnull() },
        stdout: if has("out") { Redirection::Pipe } else { devnull() },
        stderr: if has("err") { Redirection::Pipe } else { devnull() },
        ..Default::default()
    };
    let base = now_ns();
    let mut p = match Popen::create(&argv, cfg) {
        Ok(p) => p,
        Err(e) => {
            out.push(json!({"e":"reset","id":id,"piped":piped,"inlen":inlen}).to_string());
            out.push(json!({"e":"tool_error","what":format!("spawn failed: {}", e)}).to_string());
            out.push(json!({"e":"end"}).to_string());
            return;
        }
    };
    let pid = p.pid().unwrap();
    if let Some(cap) = v["cap"].as_u64() {
        use std::os::unix::io::AsRawFd;
        for f in [p.stdin.as_ref(), p.stdout.as_ref(), p.stderr.as_ref()].iter().flatten() {
            unsafe { libc::fcntl(f.as_raw_fd(), libc::F_SETPIPE_SZ, cap as libc::c_int) };
        }
    }
    out.push(json!({"e":"reset","id":id,"piped":piped,"inlen":inlen}).to_string());
    let input: Option<Vec<u8>> = if has("in") { Some((0..inlen).map(|i| pat(0, i)).collect()) } else { None };
    let unix_impl = v["impl"].as_str() == Some("unix");
    let mut input = input;
    let pcomm = if unix_impl { Some(p.communicate_start(input.take())) } else { None };
    let (si, so, se) = (p.stdin.take(), p.stdout.take(), p.stderr.take());
    let calls: Vec<Value> = v["calls"].as_array().unwrap().clone();
    let until_eof = v["until_eof"].as_bool().unwrap_or(false);
    let max_errors = v["max_errors"].as_u64().unwrap_or(1);
    let (tx, rx) = mpsc::channel::<String>();
    let worker = std::thread::spawn(move || {
        let mut comm = Some(if unix_impl {
            AnyComm::Unix(pcomm.unwrap())
        } else {
            AnyComm::Win(wincomm::communicate(si, so, se, input))
        });
        let mut delivered = [0u64; 3];
        let mut nerrs = 0u64;
        let mut eff_limit: i64 = -1;
        let mut eff_tl: Option<u64> = None;
        let mut i = 0usize;
        let mut ncalls = 0usize;
        loop {
            let c = if i < calls.len() {
                calls[i].clone()
            } else if until_eof && !calls.is_empty() && ncalls < 400 {
                let mut c = calls[calls.len() - 1].clone();
                c["pause_ms"] = json!(0);
                c
            } else {
                break;
            };
            i += 1;
            ncalls += 1;
            if let Some(ms) = c["pause_ms"].as_u64() {
                if ms > 0 {
                    std::thread::sleep(Duration::from_millis(ms));
                }
            }
            let mut cm = comm.take().unwrap();
            let limit = c["limit"].as_i64().unwrap_or(-1);
            if limit >= 0 {
                cm = cm.limit_size(limit as usize);
                eff_limit = limit;
            }
            if let Some(us) = c["tlim_us"].as_u64() {
                cm = cm.limit_time(Duration::from_micros(us));
                eff_tl = Some(us);
            }
            let hold = c["hold_us"].as_u64().unwrap_or(0);
            let t0 = now_ns() - base;
            let _ = tx.send(json!({"e":"call","limit":eff_limit,"tl": eff_tl.map(|us| tp(us * 1000)).unwrap_or(json!([])),
                "now":tp(t0),"hold_us":hold}).to_string());
            HOLD_US.with(|h| h.set(hold));
            let r = catch_unwind(AssertUnwindSafe(|| cm.read()));
            HOLD_US.with(|h| h.set(0));
            let t1 = now_ns() - base;
            let (kind, cap, msg) = match r {
                Ok(Ok(c)) => ("ok", Some(c), String::new()),
                Ok(Err((kind, m, capture))) => {
                    let k = if kind == std::io::ErrorKind::TimedOut { "timedout" } else { "oserr" };
                    (k, Some(capture), m)
                }
                Err(_) => ("panic", None, String::new()),
            };
            let (o, e) = cap.unwrap_or((None, None));
            let nout = o.as_ref().map_or(0, |x| x.len()) as u64;
            let nerr = e.as_ref().map_or(0, |x| x.len()) as u64;
            let out_ok = o.as_ref().map_or(true, |x| content_ok(1, delivered[1], x));
            let err_ok = e.as_ref().map_or(true, |x| content_ok(2, delivered[2], x));
            delivered[1] += nout;
            delivered[2] += nerr;
            let _ = tx.send(json!({"e":"ret","kind":kind,"has_out":o.is_some(),"has_err":e.is_some(),"nout":nout,"nerr":nerr,
                "out_ok":out_ok,"err_ok":err_ok,"now":tp(t1),"msg":msg}).to_string());
            comm = Some(cm);
            if kind == "oserr" {
                nerrs += 1;
            }
            if kind == "panic" || nerrs >= max_errors {
                break;
            }
            if i >= calls.len() && kind == "ok" && nout == 0 && nerr == 0 {
                break;
            }
        }
        drop(comm);
        let _ = tx.send(json!({"e":"dropped","now":tp(now_ns() - base)}).to_string());
    });
    // collect the worker's events; a silence of 20 s is a hang
    let budget = Duration::from_millis(v["watchdog_ms"].as_u64().unwrap_or(20_000));
    let mut hung = false;
    loop {
        match rx.recv_timeout(budget) {
            Ok(l) => {
                let fin = l.contains("\"e\":\"dropped\"");
                out.push(l);
                if fin {
                    break;
                }
            }
            Err(mpsc::RecvTimeoutError::Timeout) => {
                let (st, w) = child_state(pid);
                let ev = if st == "Z" || st == "?" {
                    "child_exited"
                } else if w.contains("pipe") || w.starts_with("0 ") && false {
                    "child_blocked_on_pipe"
                } else if st == "S" && (w.contains(" 0") || w.contains(" 1")) {
                    // /proc/<pid>/syscall: blocked in read (0) or write (1)
                    "child_blocked_on_pipe"
                } else {
                    "none"
                };
                out.push(json!({"e":"hang","evidence":ev,"child_state":st,"child_wchan":w,"now":tp(now_ns() - base)}).to_string());
                hung = true;
                break;
            }
            Err(mpsc::RecvTimeoutError::Disconnected) => break,
        }
    }
    let mut killed = false;
    if hung {
        let _ = p.kill();
        killed = true;
        // with the child gone every helper unblocks; give the worker a moment, then leave it behind
        let _ = rx.recv_timeout(Duration::from_secs(3));
    } else {
        let _ = worker.join();
    }
    let status = match p.wait_timeout(Duration::from_secs(10)) {
        Ok(Some(s)) => format!("{:?}", s),
        _ => {
            let _ = p.kill();
            killed = true;
            let _ = p.wait();
            "killed".to_string()
        }
    };
    // the child's own account
    let logp = format!("{}/{}.log", simk::rk::vr(), pid);
    let log = std::fs::read_to_string(&logp).unwrap_or_default();
    let _ = std::fs::remove_file(&logp);
    let _ = std::fs::remove_file(format!("{}/{}.json", simk::rk::vr(), pid));
    let rel = |x: u64| tp(x.saturating_sub(base));
    let mut ev = json!({"e":"child","status":status,"killed":killed,"final":false,"recv":0,"recv_ok":true,"wrote_out":0,
        "wrote_err":0,"eof":false,"eof_wait":tp(0),"t_eof":[],"t_close_out":[],"t_close_err":[]});
    for l in log.lines() {
        let f: Vec<&str> = l.split_whitespace().collect();
        match f.first().copied() {
            Some("eof") if f.len() >= 3 => {
                ev["eof"] = json!(true);
                ev["t_eof"] = rel(f[1].parse().unwrap_or(0));
                ev["eof_wait"] = tp(f[2].parse().unwrap_or(0));
            }
            Some("closing") if f.len() >= 3 => {
                let k = match f[1] {
                    "1" => "t_close_out",
                    "2" => "t_close_err",
                    _ => "",
                };
                if !k.is_empty() && ev[k].as_array().map_or(true, |a| a.is_empty()) {
                    ev[k] = rel(f[2].parse().unwrap_or(0));
                }
            }
            Some("final") if f.len() >= 7 => {
                ev["final"] = json!(true);
                let t = rel(f[1].parse().unwrap_or(0));
                ev["recv"] = json!(f[2].parse::<u64>().unwrap_or(0));
                ev["recv_ok"] = json!(f[3] == "true");
                ev["wrote_out"] = json!(f[4].parse::<u64>().unwrap_or(0));
                ev["wrote_err"] = json!(f[5].parse::<u64>().unwrap_or(0));
                // exiting closes whatever is still open
                for k in ["t_close_out", "t_close_err"] {
                    if ev[k].as_array().map_or(true, |a| a.is_empty()) {
                        ev[k] = t.clone();
                    }
                }
            }
            _ => {}
        }
    }
    out.push(ev.to_string());
    out.push(json!({"e":"end"}).to_string());
}

fn main() {
    let args: Vec<String> = std::env::args().collect();
    if !wincomm::EXTRACTED {
        eprintln!("commwin_replay: the thread-based communicator could not be extracted from /repo/src/communicate.rs");
        std::process::exit(2);
    }
    simk::rk::begin_run();
    let vchild = std::env::current_exe().unwrap().parent().unwrap().join("../../../harness/target/release/vchild");
    let vchild = std::fs::canonicalize(&vchild).expect("vchild binary").to_string_lossy().into_owned();
    let mut outf = std::io::BufWriter::new(File::create(&args[2]).unwrap());
    let mut n = 0;
    let mut hangs = 0;
    for line in BufReader::new(File::open(&args[1]).unwrap()).lines() {
        let line = line.unwrap();
        if line.trim().is_empty() {
            continue;
        }
        let v: Value = serde_json::from_str(&line).unwrap();
        let mut lines = vec![];
        if hangs >= 4 {
            // enough hangs seen (20 s each): do not sit through the watchdog for every remaining scenario
            continue;
        }
        run_one(&v, &vchild, &mut lines);
        if lines.iter().any(|l| l.contains("\"e\":\"hang\"")) {
            hangs += 1;
        }
        n += 1;
        for l in lines {
            outf.write_all(l.as_bytes()).unwrap();
            outf.write_all(b"\n").unwrap();
        }
        outf.flush().unwrap();
    }
    simk::rk::end_run();
    eprintln!("commwin_replay: {} scenarios", n);
}
