SPECIFICATION Spec
CONSTANTS
  RejectNul = TRUE
  Names <- N2
  Values <- V2
  MaxEntries = 4
INVARIANT Inv
