------------------------------- MODULE ShQuote -------------------------------
(***************************************************************************)
(* C19.  Two transcribed pure functions and a round-trip property.         *)
(*                                                                         *)
(*   Render(argv)  = what src/builder.rs prints for a command              *)
(*                   (display_escape per word, joined by blanks; pipeline  *)
(*                   stages joined by " | ")                               *)
(*   ShSplit(line) = how a POSIX shell tokenises a line made of the        *)
(*                   constructs a renderer may use: unquoted text,         *)
(*                   '...', "...", backslash escapes; anything the shell   *)
(*                   would INTERPRET unquoted (globs, expansions, control  *)
(*                   operators, comments, assignments) yields Error.       *)
(*                                                                         *)
(* Property: ShSplit(Render(stages)) = stages, for all argument vectors.   *)
(* Strings are sequences of code points.  Trace validation applies ShSplit *)
(* to the ACTUAL output of the library (and compares with what the real    *)
(* `sh` produced), so a different but correct quoting style is accepted.   *)
(***************************************************************************)
EXTENDS Naturals, Integers, Sequences, FiniteSets, TLC

SQ == 39   \* '
DQ == 34   \* "
BS == 92   \* backslash
SP == 32
TAB == 9
NL == 10
BAR == 124

IsAlnum(c) == (c >= 48 /\ c <= 57) \/ (c >= 65 /\ c <= 90) \/ (c >= 97 /\ c <= 122)
Nice(c) == IsAlnum(c) \/ c \in {45, 95, 46, 44, 47}       \* - _ . , /
Blank(c) == c \in {SP, TAB}
\* (an unquoted newline is not a blank to sh: it ends the command -- what follows is another command, and a line that
\* begins with `|` is a syntax error; the tokeniser below refuses it, like the other operators it does not model)
\* characters the shell interprets when they appear unquoted
Meta(c) == c \in {BAR, 38, 59, 60, 62, 40, 41, 36, 96, 42, 63, 91, 35, 126, 33, 123, 125, NL}
            \* | & ; < > ( ) $ ` * ? [ # ~ ! { }

\* ---------------------------------------------------------------- the renderer (transcribed)
\* FixEmpty: the repaired code quotes the empty string as ''; the pinned code printed nothing for it
CONSTANT FixEmpty

RECURSIVE EscQuotes(_)
EscQuotes(s) == IF s = <<>> THEN <<>>
                ELSE IF Head(s) = SQ THEN <<SQ, BS, SQ, SQ>> \o EscQuotes(Tail(s))
                ELSE <<Head(s)>> \o EscQuotes(Tail(s))
AllNice(s) == \A i \in 1..Len(s) : Nice(s[i])
DisplayEscape(s) ==
  IF AllNice(s) /\ (s # <<>> \/ ~FixEmpty) THEN s ELSE <<SQ>> \o EscQuotes(s) \o <<SQ>>

RECURSIVE JoinWith(_, _)
JoinWith(words, sep) == IF words = <<>> THEN <<>>
                        ELSE IF Len(words) = 1 THEN words[1]
                        ELSE words[1] \o sep \o JoinWith(Tail(words), sep)
RenderCmd(argv) == JoinWith([i \in 1..Len(argv) |-> DisplayEscape(argv[i])], <<SP>>)
Render(stages) == JoinWith([i \in 1..Len(stages) |-> RenderCmd(stages[i])], <<SP, BAR, SP>>)

\* ---------------------------------------------------------------- the shell's tokeniser
Error == <<<<<<-1>>>>>>    \* shaped like a result so that it can be compared with one; no code point is negative

\* state: [i position, mode "u"|"s"|"d", cur word, have (a word is in progress), words of the current
\*         command, cmds finished, err]
RECURSIVE Scan(_, _)
Scan(line, st) ==
  IF st.err THEN Error
  ELSE IF st.i > Len(line) THEN
    IF st.mode # "u" THEN Error
    ELSE LET ws == IF st.have THEN Append(st.words, st.cur) ELSE st.words IN
         IF ws = <<>> THEN (IF st.cmds = <<>> THEN <<>> ELSE Error) ELSE Append(st.cmds, ws)
  ELSE
    LET c == line[st.i]
        nxt == [st EXCEPT !.i = st.i + 1]
    IN
    CASE st.mode = "s" ->
           IF c = SQ THEN Scan(line, [nxt EXCEPT !.mode = "u"])
           ELSE Scan(line, [nxt EXCEPT !.cur = Append(st.cur, c)])
      [] st.mode = "d" ->
           IF c = DQ THEN Scan(line, [nxt EXCEPT !.mode = "u"])
           ELSE IF c = BS THEN
             IF st.i + 1 > Len(line) THEN Error
             ELSE LET d == line[st.i + 1] IN
                  IF d \in {36, 96, DQ, BS} THEN Scan(line, [st EXCEPT !.i = st.i + 2, !.cur = Append(st.cur, d)])
                  ELSE IF d = NL THEN Scan(line, [st EXCEPT !.i = st.i + 2])
                  ELSE Scan(line, [nxt EXCEPT !.cur = Append(st.cur, c)])
           ELSE IF c \in {36, 96} THEN Error
           ELSE Scan(line, [nxt EXCEPT !.cur = Append(st.cur, c)])
      [] OTHER ->   \* unquoted
           IF c = SQ THEN Scan(line, [nxt EXCEPT !.mode = "s", !.have = TRUE])
           ELSE IF c = DQ THEN Scan(line, [nxt EXCEPT !.mode = "d", !.have = TRUE])
           ELSE IF c = BS THEN
             IF st.i + 1 > Len(line) THEN Error
             ELSE IF line[st.i + 1] = NL THEN Scan(line, [st EXCEPT !.i = st.i + 2])
             ELSE Scan(line, [st EXCEPT !.i = st.i + 2, !.cur = Append(st.cur, line[st.i + 1]), !.have = TRUE])
           ELSE IF Blank(c) THEN
             IF st.have THEN Scan(line, [nxt EXCEPT !.words = Append(st.words, st.cur), !.cur = <<>>, !.have = FALSE])
             ELSE Scan(line, nxt)
           ELSE IF c = BAR THEN
             \* a pipe: ends the current command (which must not be empty); "||" is another operator
             LET ws == IF st.have THEN Append(st.words, st.cur) ELSE st.words IN
             IF ws = <<>> \/ (st.i + 1 <= Len(line) /\ line[st.i + 1] = BAR) THEN Error
             ELSE Scan(line, [nxt EXCEPT !.cmds = Append(st.cmds, ws), !.words = <<>>, !.cur = <<>>, !.have = FALSE])
           ELSE IF Meta(c) THEN Error
           ELSE IF c = 61 /\ st.words = <<>> /\ ~st.asg THEN Error   \* '=' in the command word: an assignment
           ELSE Scan(line, [nxt EXCEPT !.cur = Append(st.cur, c), !.have = TRUE])

ShSplit(line) ==
  Scan(line, [i |-> 1, mode |-> "u", cur |-> <<>>, have |-> FALSE, words |-> <<>>, cmds |-> <<>>, err |-> FALSE, asg |-> FALSE])
\* the same for a line that may begin with NAME=value assignments (a command shown with its environment settings):
\* they come back as words, for the caller to tell apart
ShSplitAssign(line) ==
  Scan(line, [i |-> 1, mode |-> "u", cur |-> <<>>, have |-> FALSE, words |-> <<>>, cmds |-> <<>>, err |-> FALSE, asg |-> TRUE])

RoundTrip(stages) == ShSplit(Render(stages)) = stages
=============================================================================
