------------------------------ MODULE MCWinArgs ------------------------------
(* Exhaustive round trip over an alphabet with a letter, space, tab, newline, double quote,
   backslash and a non-ASCII unit; the program name is a plain file name (letters and blanks). *)
EXTENDS WinArgs
CONSTANT MaxLen, MaxArgs
VARIABLE argv
Alpha == {97, SP, TAB, NL, DQ, BS, 233}
Str(n) == UNION {[1..k -> Alpha] : k \in 0..n}
Progs == {<<97>>, <<97, SP, 98>>, <<67, 58, BS, 97>>}
Cases ==
  {<<p>> \o <<a>> : p \in Progs, a \in Str(MaxLen - 1)}
  \cup {<< <<97>>, a >> : a \in Str(MaxLen)}
  \cup {<<p>> \o r : p \in {<<97>>}, r \in UNION {[1..k -> Str(MaxLen - 2)] : k \in 0..MaxArgs}}
Init == argv \in Cases
Next == UNCHANGED argv
Spec == Init /\ [][Next]_argv
Faithful == RoundTrip(argv)
=============================================================================
