--------------------------------- MODULE Proc ---------------------------------
(***************************************************************************)
(* L2 of the child-lifecycle specification: the algorithm of src/popen.rs  *)
(* (child_state Running{pid} -> Finished(status); the waitpid wrapper with *)
(* its pid check and ECHILD => Undetermined; os_wait; os_wait_timeout with *)
(* the 1 ms -> DelayCap doubling back-off and sleep(min(delay, remaining));*)
(* poll = wait_timeout(0) with errors swallowed; send_signal gated on      *)
(* Running; Drop = wait unless detached) running against every history of  *)
(* API calls and every placement of the child's exit, external reaping and *)
(* pid reuse.  TLC checks that no monitor of ProcEnv fires.                *)
(* Model time is whole milliseconds.                                       *)
(***************************************************************************)
EXTENDS ProcEnv

CONSTANTS
  MaxOps,     \* API calls per history
  Durations,  \* wait_timeout arguments (ms)
  Statuses,   \* possible termination statuses of the child
  MaxNow,     \* clock bound (ms)
  DelayCap,   \* back-off cap (ms); the code has 100
  Signals,    \* send_signal arguments
  GateSignals,\* TRUE = the code (signals only while Running); FALSE = a defective variant
  CheckPid    \* TRUE = the code (state changes only if waitpid returned our pid)

VARIABLES
  pc, fin,    \* control point; child_state = Finished(fin) (NoSt = Running)
  nops, dl, delay, res, dropped

lvars == <<pc, fin, nops, dl, delay, res, dropped>>
vars == <<pvars, lvars>>

MsT(m) == <<m \div 1000, (m % 1000) * 1000000>>
NowMs == now[1] * 1000 + now[2] \div 1000000

Init ==
  /\ \E d \in BOOLEAN : PInit(d)
  /\ pc = "idle" /\ fin = NoSt /\ nops = 0 /\ dl = 0 /\ delay = 1 /\ res = NoSt /\ dropped = FALSE

\* ---------------------------------------------------------------- environment
EnvNext ==
  \/ \E st \in Statuses : Exit(st, now)
  \/ XReap
  \/ Reuse
  \/ NowMs < MaxNow /\ op = "none" /\ Delay(MsT(NowMs + 1))

\* ---------------------------------------------------------------- the handle
LU == UNCHANGED <<nops, dropped>>

ApiOps == {"poll", "wait", "wait_timeout", "pid", "exit_status", "terminate", "kill", "send_signal", "detach"}

LCall ==
  /\ pc = "idle" /\ ~dropped /\ nops < MaxOps
  /\ \E o \in ApiOps :
       \E d \in (IF o = "wait_timeout" THEN Durations ELSE {0}), n \in (IF o = "send_signal" THEN Signals ELSE {0}) :
         /\ Api(o, MsT(d), n)
         /\ pc' = o /\ dl' = NowMs + d /\ delay' = 1 /\ res' = NoSt
  /\ nops' = nops + 1
  /\ UNCHANGED <<fin, dropped>>

LDropCall ==
  /\ pc = "idle" /\ ~dropped
  /\ Api("drop", <<0, 0>>, 0)
  /\ pc' = "drop" /\ dropped' = TRUE
  /\ UNCHANGED <<fin, nops, dl, delay, res>>

\* the waitpid wrapper: one waitpid call and the resulting state change
WaitWrap(nohang, nextpc) ==
  \E ret \in {0, VPid, -1} :
    /\ Waitpid(nohang, ret, IF ret = VPid THEN truth ELSE NoSt)
    /\ fin' = IF ret = VPid THEN truth
              ELSE IF ret = -1 THEN [k |-> "undetermined", v |-> 0]
              ELSE IF CheckPid THEN fin ELSE [k |-> "exited", v |-> 0]
    /\ pc' = nextpc

\* os_wait_timeout / poll
LWt ==
  /\ pc \in {"poll", "wait_timeout"}
  /\ IF fin # NoSt THEN pc' = "ret" /\ res' = fin /\ UNCHANGED <<pvars, fin, delay>>
     ELSE WaitWrap(TRUE, "wt_after") /\ UNCHANGED <<res, delay>>
  /\ UNCHANGED <<dl>> /\ LU

LWtAfter ==
  /\ pc = "wt_after"
  /\ IF fin # NoSt THEN pc' = "ret" /\ res' = fin /\ UNCHANGED <<pvars, delay>>
     ELSE IF NowMs >= dl THEN pc' = "ret" /\ res' = NoSt /\ UNCHANGED <<pvars, delay>>
     ELSE LET d == IF delay < dl - NowMs THEN delay ELSE dl - NowMs IN
          /\ Sleep(MsT(d), MsT(NowMs + d))
          /\ delay' = IF 2 * delay < DelayCap THEN 2 * delay ELSE DelayCap
          /\ pc' = "wt_loop" /\ UNCHANGED res
  /\ UNCHANGED <<fin, dl>> /\ LU

LWtLoop ==
  /\ pc = "wt_loop"
  /\ WaitWrap(TRUE, "wt_after")
  /\ UNCHANGED <<dl, delay, res>> /\ LU

\* os_wait
LWait ==
  /\ pc = "wait"
  /\ IF fin # NoSt THEN pc' = "ret" /\ res' = fin /\ UNCHANGED <<pvars, fin>>
     ELSE WaitWrap(FALSE, "wait") /\ UNCHANGED res
  /\ UNCHANGED <<dl, delay>> /\ LU

LAccessor ==
  /\ pc \in {"pid", "exit_status", "detach"}
  /\ res' = CASE pc = "pid" -> IF fin = NoSt THEN [k |-> "some", v |-> VPid] ELSE NoSt
              [] pc = "exit_status" -> fin
              [] OTHER -> [k |-> "ok", v |-> 0]
  /\ pc' = "ret"
  /\ UNCHANGED <<pvars, fin, dl, delay>> /\ LU

LSignal ==
  /\ pc \in SignalOps
  /\ LET sig == CASE pc = "terminate" -> SIGTERM [] pc = "kill" -> SIGKILL [] OTHER -> opN IN
     IF GateSignals /\ fin # NoSt
     THEN res' = [k |-> "ok", v |-> 0] /\ UNCHANGED pvars
     ELSE \E ret \in {0, -1} :
            /\ Kill(VPid, sig, ret)
            /\ res' = IF ret = 0 THEN [k |-> "ok", v |-> 0] ELSE [k |-> "err", v |-> 3]
  /\ pc' = "ret"
  /\ UNCHANGED <<fin, dl, delay>> /\ LU

LDrop ==
  /\ pc = "drop"
  /\ IF ~det /\ fin = NoSt
     THEN WaitWrap(FALSE, "drop") /\ UNCHANGED res
     ELSE pc' = "ret" /\ res' = [k |-> "ok", v |-> 0] /\ UNCHANGED <<pvars, fin>>
  /\ UNCHANGED <<dl, delay>> /\ LU

LRet ==
  /\ pc = "ret"
  /\ ApiRet(op, res, now)
  /\ pc' = "idle"
  /\ UNCHANGED <<fin, dl, delay, res>> /\ LU

LibNext == LCall \/ LDropCall \/ LWt \/ LWtAfter \/ LWtLoop \/ LWait \/ LAccessor \/ LSignal \/ LDrop \/ LRet

Done == dropped /\ pc = "idle" /\ UNCHANGED vars
Next == (EnvNext /\ UNCHANGED lvars) \/ LibNext \/ Done
Spec == Init /\ [][Next]_vars

NoViolation == viol = {}
\* refinement mapping between the handle's state and the monitor's view
StateAgrees == (pc = "idle" => (fin = NoSt) = (known = NoSt) \/ (fin # NoSt /\ known = NoSt))
Bound == NowMs <= MaxNow
=============================================================================
