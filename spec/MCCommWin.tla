------------------------------ MODULE MCCommWin ------------------------------
(* Model-checking instance of CommWin: constant sets that a .cfg cannot spell. *)
EXTENDS CommWin
L_none   == {-1}
L_1      == {1}
L_12     == {-1, 1, 2}
L_123    == {-1, 1, 2, 3}
T_none   == {-1}
T_0      == {0}
T_01     == {-1, 0, 1}
T_012    == {-1, 0, 1, 2}
=============================================================================
