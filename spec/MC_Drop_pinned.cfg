SPECIFICATION Spec
CONSTANTS
  Cap = 2
  Amount = 4
  CloseFirst = FALSE
  ReadPipeFix = TRUE
  ErrPipeFix = TRUE
INVARIANT Reaped
