SPECIFICATION TraceSpec
INVARIANT EnvOk
POSTCONDITION TraceAccepted
CHECK_DEADLOCK FALSE
