SPECIFICATION Spec
CONSTANT MaxOps = 5
INVARIANT Refines
CHECK_DEADLOCK FALSE
