SPECIFICATION Spec
CONSTANTS
  Threads <- One
  Conf <- ConfA
  AtomicCloexec = FALSE
  ChildrenExit = FALSE
INVARIANT NoViolation ParentStd
