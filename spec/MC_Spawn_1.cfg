SPECIFICATION Spec
CONSTANTS
  Threads <- One
  Conf <- ConfA
  AtomicCloexec = TRUE
  ChildrenExit = FALSE
INVARIANT NoViolation ParentStd
