----------------------------- MODULE BuilderTrace -----------------------------
(***************************************************************************)
(* Trace validation for C16: the L1 model of Builder.tla is evaluated on   *)
(* the recorded builder call sequence and compared with what the real      *)
(* Exec did (which call it refused, what the started program reported).    *)
(***************************************************************************)
EXTENDS Builder, Json, IOUtils

Rec == ndJsonDeserialize(IOEnv.TRACE)
VARIABLES l, scn, cfg, parent, pcwd, base, runs
tvars == <<l, scn, cfg, parent, pcwd, base, runs>>
Ev == Rec[l]
IsEvent(e) == l <= Len(Rec) /\ Ev.e = e /\ l' = l + 1
V(ok, name) == IF ok THEN {} ELSE {name}
Pairs(seq) == {<<seq[i][1], seq[i][2]>> : i \in 1..Len(seq)}
\* JSON arrays of arrays -> TLA tuples usable by Step1
Op(o) == IF o[1] \in {"args"} THEN <<o[1], o[2]>>
         ELSE IF o[1] = "env_extend" THEN <<o[1], [i \in 1..Len(o[2]) |-> <<o[2][i][1], o[2][i][2]>>]>>
         ELSE o
Ops == [i \in 1..Len(cfg.ops) |-> Op(cfg.ops[i])]

TraceInit == l = 1 /\ scn = "none" /\ cfg = [id |-> "none"] /\ parent = {} /\ pcwd = "" /\ base = <<>> /\ runs = <<>>
TReset == IsEvent("reset") /\ scn' = Ev.id /\ cfg' = Ev.cfg /\ runs' = <<>> /\ UNCHANGED <<parent, pcwd, base>>
TPre   == IsEvent("bpre") /\ parent' = Pairs(Ev.penv) /\ pcwd' = Ev.pcwd /\ base' = Ev.base_argv /\ UNCHANGED <<scn, cfg, runs>>
TRun   == IsEvent("brun") /\ runs' = Append(runs, Ev) /\ UNCHANGED <<scn, cfg, parent, pcwd, base>>

\* number of builder calls that precede the i-th run's command: "orig@k" = k, "final" = all
Upto(r) == IF r.which = "final" THEN Len(cfg.ops) ELSE r.at
RunVerdict(r) ==
  LET st == Run1(Init1(parent), Ops, Upto(r))
      tv == Term1(st, r.term)
      expArgs == (IF cfg.is_shell THEN <<"sh", "-c", cfg.shell>> ELSE base) \o st.args
  IN
    V(r.refused => tv \in {"must", "may"}, "C16_terminator_refused_without_reason")
    \cup V(~r.refused => tv \in {"acc", "may"}, "C16_undeliverable_input_not_refused")
    \* (an invalid stream combination is refused loudly by a logic error from the launch)
    \cup V(~r.refused /\ ~cfg.is_shell /\ r.errkind # "logic" => r.report.have, "C16_command_not_run")
    \cup V(~r.refused /\ r.report.have /\ ~cfg.is_shell => r.report.argv = expArgs, "C16_arguments_in_order")
    \cup V(~r.refused /\ r.report.have /\ ~cfg.is_shell => Pairs(r.report.env) = st.env, "C16_environment_edits")
    \cup V(~r.refused /\ r.report.have /\ ~cfg.is_shell => r.report.cwd = (IF st.cwd = "" THEN pcwd ELSE st.cwd), "C16_cwd")
    \cup V(~r.refused /\ cfg.is_shell => r.execargs = expArgs, "C16_shell_gets_one_single_argument")
    \* communicate(): stdout is captured when it was piped -- or when neither output was configured at all --, stderr when
    \* it was piped; a stream that is not captured is reported as absent (and stays where it was configured to go)
    \cup (IF r.term = "communicate" /\ ~r.refused /\ r.streams[1]
          THEN LET wantOut == st.sout = "pipe" \/ (st.sout = "unset" /\ st.serr = "unset")
                   wantErr == st.serr = "pipe"
               IN IF r.streams[2] = wantOut /\ r.streams[3] = wantErr THEN {}
                  ELSE {"C16_streams_as_configured", "C02_absent_iff_not_piped"}
          ELSE {})

TResult ==
  /\ IsEvent("bresult")
  /\ LET vs == Verdicts1(parent, Ops)
         viol == V(RefusalAllowed(vs, Ev.refused_at + 1), "C16_second_setting_refused_loudly")
                 \cup UNION {RunVerdict(runs[i]) : i \in 1..Len(runs)}
                 \cup V(Ev.refused_at < 0 => \E i \in 1..Len(runs) : runs[i].which = "final", "C16_command_not_run")
     IN PrintT(<<"RESULT", scn, viol, {}, "-">>)
  /\ UNCHANGED <<scn, cfg, parent, pcwd, base, runs>>
TSkip == l <= Len(Rec) /\ Ev.e \in {"pre", "post", "end", "watchdog"} /\ l' = l + 1 /\ UNCHANGED <<scn, cfg, parent, pcwd, base, runs>>

TraceNext == TReset \/ TPre \/ TRun \/ TResult \/ TSkip
TraceSpec == TraceInit /\ [][TraceNext]_tvars
TraceAccepted ==
  LET d == TLCGet("stats").diameter IN
  IF d - 1 = Len(Rec) THEN PrintT(<<"ACCEPTED", Len(Rec)>>)
  ELSE /\ PrintT(<<"UNMATCHED", d, Rec[d]>>)
       /\ FALSE
=============================================================================
