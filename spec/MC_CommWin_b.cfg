SPECIFICATION Spec
CONSTANTS
  Piped = {"in","out","err"}
  Cap = 1
  K = 1
  ReadBuf = 1
  InLen = 2
  MaxOut = 2
  MaxErr = 2
  MaxChunk = 2
  Limits <- L_none
  TLims <- T_none
  MaxCalls = 1
  MaxNow = 0
  ShortIO = FALSE
  DeadlineCheck = TRUE
  CloseBeforeSend = TRUE
  ClearOnErr = TRUE
INVARIANT NoViolation EnvOk
CONSTRAINT Bound
