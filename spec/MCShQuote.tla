------------------------------ MODULE MCShQuote ------------------------------
(* Exhaustive round-trip check of ShQuote over a small alphabet containing one representative of
   every character class (letter, nice punctuation, blank, newline, both quotes, backslash, glob,
   expansion, assignment, non-ASCII). *)
EXTENDS ShQuote
CONSTANT MaxLen, MaxArgs
VARIABLE stages
Alpha == {97, 45, 32, 10, 39, 34, 92, 42, 36, 61, 233}
Str(n) == UNION {[1..k -> Alpha] : k \in 0..n}
Argv(n, m) == UNION {[1..k -> Str(n)] : k \in 1..m}
Cases ==
  {<<a>> : a \in Argv(MaxLen, 1)}                       \* one long word
  \cup {<<a>> : a \in Argv(MaxLen - 1, MaxArgs)}        \* several shorter words
  \cup {<<a, b>> : a \in Argv(1, 1), b \in Argv(1, 2)}  \* pipelines
Init == stages \in Cases
Next == UNCHANGED stages
Spec == Init /\ [][Next]_stages
Faithful == RoundTrip(stages)
=============================================================================
