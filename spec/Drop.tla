--------------------------------- MODULE Drop ---------------------------------
(***************************************************************************)
(* L2 for C12 / C14: Rust's drop order for the handles that own Popens,     *)
(* over kernel pipes and children that block on them.                       *)
(*                                                                         *)
(* A handle owns one command or a two-command pipeline.  The parent may     *)
(* hold the write end of the first command's stdin pipe (W0) and the read   *)
(* end of the last command's stdout pipe (R).  Dropping the handle is a     *)
(* PLAN: a sequence of `close` and `wait` steps fixed by the kind of handle *)
(* and by two switches:                                                     *)
(*   CloseFirst   -- Popen::drop releases its pipe ends BEFORE waiting      *)
(*                   (the repaired code; FALSE = wait first, the fields are *)
(*                   dropped only after drop() returns)                     *)
(*   ReadPipeFix  -- the pipeline adapters release EVERY pipe end the       *)
(*                   commands' Popens hold before the commands are waited  *)
(*                   for front to back (FALSE: the write adapter closes    *)
(*                   only the first stdin, the read adapter nothing)       *)
(*   ErrPipeFix   -- a pipeline started for capture / communicate that fails *)
(*                   part-way: the caller's read end of the shared stderr   *)
(*                   pipe is released BEFORE the commands already started   *)
(*                   are waited for (FALSE: it is still held while          *)
(*                   Pipeline::popen() drops -- waits for -- them)          *)
(*   ReleaseAllFix -- when a pipeline fails to start part-way, EVERY pipe end *)
(*                   held for the commands already started is released      *)
(*                   before any of them is waited for (FALSE: each Popen    *)
(*                   releases its own ends right before its own wait, so a  *)
(*                   later command blocked on its private stderr pipe keeps *)
(*                   an earlier one from ever exiting)                      *)
(* Children run one of a few programs (write more than the pipe holds,      *)
(* read to end-of-file, copy stdin to stdout, exit).  A writer whose        *)
(* reader is gone dies (SIGPIPE); a reader sees end-of-file when every      *)
(* write end is closed; `wait i` completes when child i has exited.         *)
(*                                                                         *)
(* TLC checks: the plan always completes (no deadlock: C12 "no              *)
(* self-inflicted drop hang", C14 "returns promptly") and when it has, every*)
(* child is reaped (C12 "no zombie").                                       *)
(***************************************************************************)
EXTENDS Naturals, Sequences, FiniteSets, TLC

CONSTANTS
  Cap, Amount,  \* pipe capacity, units a writer wants to write
  CloseFirst, ReadPipeFix, ErrPipeFix, ReleaseAllFix

\* the configuration is chosen in the initial state and never changes (so that one TLC run covers all of them)
VARIABLES
  Kind,         \* "popen" | "write_adapter" | "read_adapter" | "vec" | "read_pipeline" | "write_pipeline"
  StdinPiped, StdoutPiped,
  Progs         \* <<program of command 0, program of command 1>> (the second is ignored for one command)
cfgv == <<Kind, StdinPiped, StdoutPiped, Progs>>
Kinds == {"popen", "write_adapter", "read_adapter", "vec", "vec_capture", "vec_ownerr", "read_pipeline", "write_pipeline"}
\* "ewriter" writes to its standard error (the shared capture pipe of "vec_capture", nowhere otherwise)
ProgSet == {"writer", "reader", "filter", "exit", "ewriter"}

N == IF Kind \in {"vec", "vec_capture", "vec_ownerr", "read_pipeline", "write_pipeline"} THEN 2 ELSE 1
Children == 0..(N - 1)
\* pipes: "in" = parent -> child 0, "link" = child 0 -> child 1, "out" = last child -> parent
\* "errp" = every child's stderr -> parent (Pipeline::capture / communicate only)
Pipes == {"in", "link", "out", "errp"}
Parent == 9

VARIABLES
  len,      \* [Pipes -> 0..Cap]
  wr, rd,   \* [Pipes -> set of holders of the write / read end]
  cst,      \* [Children -> "run" | "zombie" | "reaped"]
  left,     \* [Children -> units still to write (writer programs)]
  owes,     \* [Children -> units read but not yet copied out (filters)]
  step      \* position in the plan
vars == <<len, wr, rd, cst, left, owes, step, cfgv>>

Last == N - 1
InPipe(i) == IF i = 0 THEN "in" ELSE "link"
OutPipe(i) == IF i = Last THEN "out" ELSE "link"
HasIn(i) == IF i = 0 THEN StdinPiped ELSE TRUE
HasOut(i) == IF i = Last THEN StdoutPiped ELSE TRUE

\* ---------------------------------------------------------------- the drop plan
PopenDrop(i) ==      \* Popen::drop of command i's Popen (it owns W0 if i = 0, R if i = Last)
  LET ends == (IF i = 0 /\ StdinPiped THEN <<<<"close", "in", "w">>>> ELSE <<>>)
              \o (IF i = Last /\ StdoutPiped THEN <<<<"close", "out", "r">>>> ELSE <<>>)
  IN IF CloseFirst THEN ends \o <<<<"wait", i>>>> ELSE <<<<"wait", i>>>> \o ends
VecDrop == IF N = 2 THEN PopenDrop(0) \o PopenDrop(1) ELSE PopenDrop(0)
Plan ==
  CASE Kind = "write_adapter"  -> <<<<"close", "in", "w">>>> \o PopenDrop(0)
    [] Kind = "write_pipeline" ->
         <<<<"close", "in", "w">>>> \o (IF ReadPipeFix /\ StdoutPiped THEN <<<<"close", "out", "r">>>> ELSE <<>>) \o VecDrop
    [] Kind = "read_pipeline"  ->
         (IF ReadPipeFix THEN (IF StdinPiped THEN <<<<"close", "in", "w">>>> ELSE <<>>) \o <<<<"close", "out", "r">>>> ELSE <<>>)
         \o VecDrop
    [] Kind = "vec_ownerr" ->
         \* the Vec of started commands of a failed pipeline whose commands have stderr(Redirection::Pipe) of their own:
         \* command i's Popen holds the read end of "errp" (here: only the LAST started command writes to it)
         IF ReleaseAllFix THEN <<<<"close", "errp", "r">>>> \o VecDrop
         ELSE PopenDrop(0) \o (IF CloseFirst THEN <<<<"close", "errp", "r">>, <<"wait", 1>>>> ELSE <<<<"wait", 1>>, <<"close", "errp", "r">>>>)
    [] Kind = "vec_capture" ->
         \* setup_communicate: `self.stdout(Pipe).popen()?` -- the Vec of started commands is dropped inside popen()
         \* while err_read is a local of the caller
         IF ErrPipeFix THEN <<<<"close", "errp", "r">>>> \o VecDrop ELSE VecDrop \o <<<<"close", "errp", "r">>>>
    [] OTHER -> VecDrop

Init ==
  /\ Kind \in Kinds /\ StdinPiped \in BOOLEAN /\ StdoutPiped \in BOOLEAN /\ Progs \in ProgSet \X ProgSet
  \* the adapters exist only with the pipe they wrap
  /\ Kind \in {"write_adapter", "write_pipeline"} => StdinPiped
  /\ Kind \in {"read_adapter", "read_pipeline"} => StdoutPiped
  \* "vec" is the Vec<Popen> of the commands already started when a later one fails (C14): the last started
  \* command's stdout was handed to the command that failed and is closed with it.  (A Vec<Popen> the caller got
  \* from Pipeline::popen() and drops with the last stdout unread can still hang -- TLC shows it -- but there the
  \* caller can release the pipe end first; C12 makes no promise about that.)
  /\ Kind \in {"vec", "vec_capture", "vec_ownerr"} => ~StdoutPiped
  /\ len = [p \in Pipes |-> 0]
  /\ wr = [p \in Pipes |-> CASE p = "in" -> IF StdinPiped THEN {Parent} ELSE {}
                             [] p = "link" -> IF N = 2 THEN {0} ELSE {}
                             [] p = "errp" -> IF Kind = "vec_capture" THEN Children ELSE IF Kind = "vec_ownerr" THEN {1} ELSE {}
                             [] OTHER -> IF StdoutPiped THEN {Last} ELSE {}]
  /\ rd = [p \in Pipes |-> CASE p = "in" -> IF StdinPiped THEN {0} ELSE {}
                             [] p = "link" -> IF N = 2 THEN {1} ELSE {}
                             [] p = "errp" -> IF Kind \in {"vec_capture", "vec_ownerr"} THEN {Parent} ELSE {}
                             [] OTHER -> IF StdoutPiped THEN {Parent} ELSE {}]
  /\ cst = [i \in Children |-> "run"]
  /\ left = [i \in Children |-> IF Progs[i + 1] \in {"writer", "ewriter"} THEN Amount ELSE 0]
  /\ owes = [i \in Children |-> 0]
  /\ step = 1

\* ---------------------------------------------------------------- children
Die(i) ==   \* exit: every descriptor of the child closes
  /\ cst' = [cst EXCEPT ![i] = "zombie"]
  /\ wr' = [p \in Pipes |-> wr[p] \ {i}]
  /\ rd' = [p \in Pipes |-> rd[p] \ {i}]

ChildWriteErr(i) ==    \* one unit to stderr
  /\ cst[i] = "run" /\ Progs[i + 1] = "ewriter" /\ left[i] > 0
  /\ IF ~(Kind = "vec_capture" \/ (Kind = "vec_ownerr" /\ i = 1))
     THEN left' = [left EXCEPT ![i] = @ - 1] /\ UNCHANGED <<len, wr, rd, cst>>      \* inherited stderr: never blocks
     ELSE IF rd["errp"] = {}
     THEN Die(i) /\ UNCHANGED <<len, left>>                                        \* SIGPIPE
     ELSE /\ len["errp"] < Cap
          /\ len' = [len EXCEPT !["errp"] = @ + 1]
          /\ left' = [left EXCEPT ![i] = @ - 1]
          /\ UNCHANGED <<wr, rd, cst>>
  /\ UNCHANGED <<owes, step>>

ChildWrite(i) ==       \* one unit to stdout (writer, or a filter that owes output)
  /\ cst[i] = "run" /\ Progs[i + 1] # "ewriter" /\ (left[i] > 0 \/ owes[i] > 0)
  /\ IF ~HasOut(i)
     THEN /\ left' = [left EXCEPT ![i] = IF @ > 0 THEN @ - 1 ELSE 0]
          /\ owes' = [owes EXCEPT ![i] = IF left[i] > 0 THEN @ ELSE @ - 1]
          /\ UNCHANGED <<len, wr, rd, cst>>
     ELSE IF rd[OutPipe(i)] = {}
     THEN Die(i) /\ UNCHANGED <<len, left, owes>>          \* SIGPIPE
     ELSE /\ len[OutPipe(i)] < Cap                            \* otherwise blocked
          /\ len' = [len EXCEPT ![OutPipe(i)] = @ + 1]
          /\ left' = [left EXCEPT ![i] = IF @ > 0 THEN @ - 1 ELSE 0]
          /\ owes' = [owes EXCEPT ![i] = IF left[i] > 0 THEN @ ELSE @ - 1]
          /\ UNCHANGED <<wr, rd, cst>>
  /\ UNCHANGED step

ChildRead(i) ==        \* reader / filter: one unit from stdin, or end-of-file
  /\ cst[i] = "run" /\ Progs[i + 1] \in {"reader", "filter"} /\ owes[i] = 0
  /\ IF ~HasIn(i) THEN Die(i) /\ UNCHANGED <<len, left, owes>>       \* inherited stdin: end-of-file at once
     ELSE IF len[InPipe(i)] > 0
     THEN /\ len' = [len EXCEPT ![InPipe(i)] = @ - 1]
          /\ owes' = [owes EXCEPT ![i] = IF Progs[i + 1] = "filter" THEN 1 ELSE 0]
          /\ UNCHANGED <<wr, rd, cst, left>>
     ELSE /\ wr[InPipe(i)] = {}                                         \* otherwise blocked
          /\ Die(i) /\ UNCHANGED <<len, left, owes>>
  /\ UNCHANGED step

ChildExit(i) ==        \* a writer that has written everything, or the "exit" program
  /\ cst[i] = "run" /\ left[i] = 0 /\ owes[i] = 0 /\ Progs[i + 1] \in {"writer", "exit", "ewriter"}
  /\ Die(i) /\ UNCHANGED <<len, left, owes, step>>

\* ---------------------------------------------------------------- the dropping parent
ParentStep ==
  /\ step <= Len(Plan)
  /\ LET s == Plan[step] IN
     IF s[1] = "close"
     THEN /\ IF s[3] = "w" THEN wr' = [wr EXCEPT ![s[2]] = @ \ {Parent}] /\ UNCHANGED rd
                          ELSE rd' = [rd EXCEPT ![s[2]] = @ \ {Parent}] /\ UNCHANGED wr
          /\ UNCHANGED cst
     ELSE /\ cst[s[2]] = "zombie"                                        \* waitpid blocks until the child has exited
          /\ cst' = [cst EXCEPT ![s[2]] = "reaped"]
          /\ UNCHANGED <<wr, rd>>
  /\ step' = step + 1
  /\ UNCHANGED <<len, left, owes>>

PlanDone == step > Len(Plan)
Next ==
  \/ (\E i \in Children : ChildWrite(i) \/ ChildWriteErr(i) \/ ChildRead(i) \/ ChildExit(i)) /\ UNCHANGED cfgv
  \/ ParentStep /\ UNCHANGED cfgv
  \/ (PlanDone /\ UNCHANGED vars)
Spec == Init /\ [][Next]_vars

\* C12: when the handle is gone every child it started has been reaped
Reaped == PlanDone => \A i \in Children : cst[i] = "reaped"
\* (C12 / C14 "never hangs" is TLC's deadlock check: the plan can always make its next step eventually)
=============================================================================
