-------------------------------- MODULE WinEnv --------------------------------
(***************************************************************************)
(* C06, Windows variant: the environment block handed to CreateProcessW.   *)
(*                                                                         *)
(* Block(env) transcribes format_env_block of src/popen.rs (walk the list  *)
(* backwards keeping the first sight of each name compared after ASCII     *)
(* upper-casing, restore the order, emit name '=' value NUL per entry and a *)
(* final NUL).  ParseBlock is the reader's side: the block is a sequence   *)
(* of NUL-terminated strings ended by an empty one; a string is split at   *)
(* its first '=' (names do not contain '=').  What the child must see      *)
(* (Expected) is stated on the request alone: one entry per name, names    *)
(* compared without regard to ASCII case, the value (and spelling) of the  *)
(* LAST request for that name, in the order of those last requests.        *)
(* A name or value containing NUL must be refused (RejectNul = the repaired *)
(* code; FALSE = the pinned code, which emits a block that reads back as   *)
(* other variables).                                                       *)
(* Units are UTF-16 code units as small integers.                          *)
(***************************************************************************)
EXTENDS Naturals, Integers, Sequences, FiniteSets, TLC

CONSTANTS RejectNul, Names, Values, MaxEntries

NUL == 0
EQ == 61
Error == <<-1>>
Upper(c) == IF c >= 97 /\ c <= 122 THEN c - 32 ELSE c
UpperS(s) == [i \in 1..Len(s) |-> Upper(s[i])]
HasNul(s) == \E i \in 1..Len(s) : s[i] = NUL
EnvHasNul(env) == \E i \in 1..Len(env) : HasNul(env[i][1]) \/ HasNul(env[i][2])

\* ---------------------------------------------------------------- the code
RECURSIVE Prune(_, _, _)
\* walk `env` from its end; seen = upper-cased names met so far; acc = kept entries (in walking order)
Prune(env, seen, acc) ==
  IF env = <<>> THEN acc
  ELSE LET e == env[Len(env)]
           rest == SubSeq(env, 1, Len(env) - 1)
           u == UpperS(e[1])
       IN IF u \in seen THEN Prune(rest, seen, acc) ELSE Prune(rest, seen \cup {u}, Append(acc, e))
Reverse(s) == [i \in 1..Len(s) |-> s[Len(s) + 1 - i]]
RECURSIVE Emit(_)
Emit(entries) == IF entries = <<>> THEN <<>>
                 ELSE entries[1][1] \o <<EQ>> \o entries[1][2] \o <<NUL>> \o Emit(Tail(entries))
Block(env) ==
  IF RejectNul /\ EnvHasNul(env) THEN Error
  ELSE Emit(Reverse(Prune(env, {}, <<>>))) \o <<NUL>>

\* ---------------------------------------------------------------- the reader
RECURSIVE Strings(_, _)
\* the NUL-terminated strings of a block, up to the empty one that ends it; cur = the string being read
Strings(b, cur) ==
  IF b = <<>> THEN (IF cur = <<>> THEN <<>> ELSE <<cur>>)         \* (no terminator: whatever was read)
  ELSE IF b[1] = NUL THEN (IF cur = <<>> THEN <<>> ELSE <<cur>> \o Strings(Tail(b), <<>>))
  ELSE Strings(Tail(b), Append(cur, b[1]))
FirstEq(s) == IF \E i \in 1..Len(s) : s[i] = EQ THEN CHOOSE i \in 1..Len(s) : s[i] = EQ /\ \A j \in 1..(i - 1) : s[j] # EQ ELSE 0
Split(s) == LET k == FirstEq(s) IN IF k = 0 THEN <<s, <<>>>> ELSE <<SubSeq(s, 1, k - 1), SubSeq(s, k + 1, Len(s))>>
ParseBlock(b) == LET ss == Strings(b, <<>>) IN [i \in 1..Len(ss) |-> Split(ss[i])]
Terminated(b) == Len(b) >= 1 /\ b[Len(b)] = NUL /\ (Len(b) = 1 \/ b[Len(b) - 1] = NUL)

\* ---------------------------------------------------------------- what the child must see
IsLast(env, i) == \A j \in (i + 1)..Len(env) : UpperS(env[j][1]) # UpperS(env[i][1])
RECURSIVE Expected(_, _)
Expected(env, i) == IF i > Len(env) THEN <<>>
                    ELSE (IF IsLast(env, i) THEN <<env[i]>> ELSE <<>>) \o Expected(env, i + 1)

\* the judgement, on any block `b` claimed for the request `env` (ok = the code returned a block)
Verdict(env, ok, b) ==
  IF EnvHasNul(env) THEN (IF ok THEN {"C06_nul_rejected"} ELSE {})
  ELSE (IF ok /\ Terminated(b) /\ ParseBlock(b) = Expected(env, 1) THEN {} ELSE {"C06_env_exact"})

\* ---------------------------------------------------------------- model checking: every request over a small alphabet
Entries == {<<n, v>> : n \in Names, v \in Values}
RECURSIVE Lists(_)
Lists(k) == IF k = 0 THEN {<<>>} ELSE Lists(k - 1) \cup {Append(l, e) : l \in {x \in Lists(k - 1) : Len(x) = k - 1}, e \in Entries}
Faithful(env) == LET b == Block(env) IN Verdict(env, b # Error, b) = {}
=============================================================================
