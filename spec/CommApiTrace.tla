---------------------------- MODULE CommApiTrace ----------------------------
(***************************************************************************)
(* Trace validation for the thread-based communicator on the real kernel:  *)
(* the records of commwin_replay are replayed through CommApi; the         *)
(* monitors are evaluated at every step.                                   *)
(***************************************************************************)
EXTENDS CommApi, Json, IOUtils

Rec == ndJsonDeserialize(IOEnv.TRACE)
VARIABLES l, scn
tvars == <<avars, l, scn>>
Ev == Rec[l]
IsEvent(e) == l <= Len(Rec) /\ Ev.e = e /\ l' = l + 1
T(p) == IF Len(p) = 0 THEN NoTime ELSE <<p[1], p[2]>>
SetOf(seq) == {seq[i] : i \in 1..Len(seq)}

TraceInit == l = 1 /\ scn = "none" /\ AInit
TReset == IsEvent("reset") /\ scn' = Ev.id /\ AReset(SetOf(Ev.piped), Ev.inlen)
TCall  == IsEvent("call") /\ ACall(Ev.limit, T(Ev.tl), T(Ev.now)) /\ UNCHANGED scn
TRet   == IsEvent("ret") /\ ARet(Ev.kind, Ev.has_out, Ev.has_err, Ev.nout, Ev.nerr, Ev.out_ok, Ev.err_ok, T(Ev.now)) /\ UNCHANGED scn
THang  == IsEvent("hang") /\ AHang(Ev.evidence) /\ UNCHANGED scn
TDrop  == IsEvent("dropped") /\ UNCHANGED <<avars, scn>>
TChild == IsEvent("child") /\ AChild(Ev.final /\ ~Ev.killed, Ev.wrote_out, Ev.wrote_err, Ev.recv, Ev.recv_ok, Ev.eof,
                                     T(Ev.eof_wait), T(Ev.t_close_out), T(Ev.t_close_err)) /\ UNCHANGED scn
TTool  == IsEvent("tool_error") /\ AToolError /\ UNCHANGED scn
TEnd ==
  /\ IsEvent("end")
  /\ PrintT(<<"RESULT", scn, viol, sanity, "-">>)
  /\ UNCHANGED <<avars, scn>>

TraceNext == TReset \/ TCall \/ TRet \/ THang \/ TDrop \/ TChild \/ TTool \/ TEnd
TraceSpec == TraceInit /\ [][TraceNext]_tvars

TraceAccepted ==
  LET d == TLCGet("stats").diameter IN
  IF d - 1 = Len(Rec) THEN PrintT(<<"ACCEPTED", Len(Rec)>>)
  ELSE /\ PrintT(<<"UNMATCHED", d, Rec[d]>>)
       /\ FALSE
=============================================================================
