SPECIFICATION Spec
CONSTANTS
  Cap = 2
  Amount = 4
  CloseFirst = TRUE
  ReadPipeFix = TRUE
  ErrPipeFix = TRUE
  ReleaseAllFix = TRUE
INVARIANT Reaped
