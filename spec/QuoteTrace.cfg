SPECIFICATION TraceSpec
CONSTANT FixEmpty = TRUE
POSTCONDITION TraceAccepted
CHECK_DEADLOCK FALSE
