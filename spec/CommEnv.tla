------------------------------- MODULE CommEnv -------------------------------
(***************************************************************************)
(* L1 of the communicate specification: the ENVIRONMENT the library's      *)
(* communicate loop runs in (up to three kernel pipes, a scripted child    *)
(* with committed blocking operations, a clock), the library seen ONLY     *)
(* through its observable interface (the system calls it issues with       *)
(* their arguments and results, and the API calls / returns), and the      *)
(* property monitors for C01-C04 stated over that vocabulary.              *)
(*                                                                         *)
(* Every action is a parameterised operator.  CommTrace.tla binds the      *)
(* parameters to the fields of a recorded event of the real code;          *)
(* Comm.tla (the algorithm model, L2) binds them to what the modelled      *)
(* loop computes.  A monitor that fails adds its name to `viol`.           *)
(*                                                                         *)
(* Sizes are in units; k = PIPE_BUF (= the library's chunk size when the   *)
(* unit is 4096/k bytes).  Time is a pair <<seconds, nanoseconds>>.        *)
(***************************************************************************)
EXTENDS Naturals, Integers, Sequences, FiniteSets, TLC

VARIABLES
  piped,      \* subset of {"in","out","err"}: streams connected by a pipe
  cap, k,     \* pipe capacity and PIPE_BUF, in units
  short,      \* TRUE: the OS may return short counts
  input,      \* Seq(id): the data the caller supplied for stdin
  buf,        \* [Streams -> Seq(id)]: pipe contents
  pOpen,      \* [Streams -> BOOLEAN]: the parent (library) end is open
  cOpen,      \* [Streams -> BOOLEAN]: the child end is open
  cPend,      \* the child's committed, not yet completed operation
  cAlive,
  now,        \* <<s, ns>>
  inCall, limit, dl, sawEof,  \* per API call: inside read(), size limit (-1 none), deadline (<<>> none), EOF seen
  written,    \* [{"out","err"} -> Seq(id)]: what the child has put into each output pipe
  delivered,  \* [{"out","err"} -> Seq(id)]: what the API has returned so far, all calls
  inAcc,      \* Seq(id): what the kernel accepted on stdin from the library
  cRecv, cEof,\* what the child read from stdin; whether it saw end-of-file
  pwDone,     \* units of an in-progress large (> PIPE_BUF) parent write already in the pipe
  after,      \* [{"poll","write","out","err"} -> Nat]: system calls issued after the deadline
  noProg,     \* consecutive library system calls that moved nothing
  flood,      \* the child's program is unbounded (writes forever)
  viol,       \* names of the property monitors violated so far in this execution
  sanity      \* names of environment-consistency checks that failed (tool error, not a violation)

envvars == <<piped, cap, k, short, input, buf, pOpen, cOpen, cPend, cAlive, now, inCall, limit, dl,
             sawEof, written, delivered, inAcc, cRecv, cEof, pwDone, after, noProg, flood, viol, sanity>>

Streams == {"in", "out", "err"}
Outs    == {"out", "err"}
NoTime  == <<>>
NoPend  == [op |-> "none"]

\* ---------------------------------------------------------------- helpers
Min(a, b) == IF a < b THEN a ELSE b
Prefix(s, n) == SubSeq(s, 1, n)
Drop(s, n) == SubSeq(s, n + 1, Len(s))
IsPrefixOf(p, s) == Len(p) <= Len(s) /\ Prefix(s, Len(p)) = p
RangeOf(s) == {s[i] : i \in 1..Len(s)}

TLe(a, b) == a[1] < b[1] \/ (a[1] = b[1] /\ a[2] <= b[2])
TLt(a, b) == a[1] < b[1] \/ (a[1] = b[1] /\ a[2] < b[2])
TAdd(a, b) == LET n == a[2] + b[2] IN
              IF n >= 1000000000 THEN <<a[1] + b[1] + 1, n - 1000000000>> ELSE <<a[1] + b[1], n>>
Ms(m) == <<m \div 1000, (m % 1000) * 1000000>>

V(ok, name) == IF ok THEN {} ELSE {name}

Free(s) == cap - Len(buf[s])
\* POSIX byte model: POLLOUT iff a write of PIPE_BUF bytes would not block
PollOut == Free("in") >= k
Revents(s) ==
  IF s = "in"
  THEN (IF PollOut THEN {"OUT"} ELSE {}) \cup (IF ~cOpen["in"] THEN {"ERR"} ELSE {})
  ELSE (IF buf[s] # <<>> THEN {"IN"} ELSE {}) \cup (IF ~cOpen[s] THEN {"HUP"} ELSE {})

Expired == dl # NoTime /\ TLe(dl, now)

\* can the child's pending operation complete (or make progress) now?
ChildCanStep ==
  /\ cAlive
  /\ CASE cPend.op = "none"  -> TRUE
       [] cPend.op = "rd"    -> "in" \notin piped \/ ~cOpen["in"] \/ buf["in"] # <<>> \/ ~pOpen["in"]
       [] cPend.op = "wr"    -> LET s == cPend.s IN
                                  \/ s \notin piped \/ ~cOpen[s] \/ ~pOpen[s]
                                  \/ IF cPend.total <= k THEN Free(s) >= Len(cPend.ids) ELSE Free(s) > 0
       [] cPend.op = "sleep" -> TLe(cPend.until, now)
       [] OTHER              -> TRUE
ChildSleeping == cAlive /\ cPend.op = "sleep" /\ TLt(now, cPend.until)

\* ---------------------------------------------------------------- initial state of one exchange
EnvInit(p, c, kk, sh, inp, fl) ==
  /\ piped = p /\ cap = c /\ k = kk /\ short = sh /\ input = inp /\ flood = fl
  /\ buf = [s \in Streams |-> <<>>]
  /\ pOpen = [s \in Streams |-> s \in p]
  /\ cOpen = [s \in Streams |-> s \in p]
  /\ cPend = NoPend /\ cAlive = TRUE
  /\ now = <<0, 0>>
  /\ inCall = FALSE /\ limit = -1 /\ dl = NoTime
  /\ sawEof = [s \in Outs |-> FALSE]
  /\ written = [s \in Outs |-> <<>>] /\ delivered = [s \in Outs |-> <<>>]
  /\ inAcc = <<>> /\ cRecv = <<>> /\ cEof = FALSE /\ pwDone = 0
  /\ after = [x \in {"poll", "write", "out", "err"} |-> 0]
  /\ noProg = 0
  /\ viol = {} /\ sanity = {}

\* the same, as a next-state relation (the trace spec re-initialises between exchanges)
EnvReset(p, c, kk, sh, inp, fl) ==
  /\ piped' = p /\ cap' = c /\ k' = kk /\ short' = sh /\ input' = inp /\ flood' = fl
  /\ buf' = [s \in Streams |-> <<>>]
  /\ pOpen' = [s \in Streams |-> s \in p]
  /\ cOpen' = [s \in Streams |-> s \in p]
  /\ cPend' = NoPend /\ cAlive' = TRUE
  /\ now' = <<0, 0>>
  /\ inCall' = FALSE /\ limit' = -1 /\ dl' = NoTime
  /\ sawEof' = [s \in Outs |-> FALSE]
  /\ written' = [s \in Outs |-> <<>>] /\ delivered' = [s \in Outs |-> <<>>]
  /\ inAcc' = <<>> /\ cRecv' = <<>> /\ cEof' = FALSE /\ pwDone' = 0
  /\ after' = [x \in {"poll", "write", "out", "err"} |-> 0]
  /\ noProg' = 0
  /\ viol' = {} /\ sanity' = {}

\* ---------------------------------------------------------------- environment: child and clock
EnvStepUnchanged == UNCHANGED <<piped, cap, k, short, input, flood, inCall, limit, dl, sawEof, delivered,
                                pwDone, after, viol>>

ChildCommit(op) ==
  /\ cAlive /\ cPend.op = "none"
  /\ cPend' = op
  /\ noProg' = 0
  /\ UNCHANGED <<buf, pOpen, cOpen, cAlive, now, written, inAcc, cRecv, cEof, sanity>>
  /\ EnvStepUnchanged

\* the child's pending read completes with `ids` (eof: it saw end-of-file)
ChildRd(ids, eof) ==
  /\ cAlive /\ cPend.op = "rd"
  /\ IF eof
     THEN /\ ids = <<>>
          /\ "in" \notin piped \/ ~cOpen["in"] \/ (buf["in"] = <<>> /\ ~pOpen["in"])
          /\ buf' = buf
     ELSE /\ "in" \in piped /\ cOpen["in"] /\ buf["in"] # <<>>
          /\ Len(ids) = Min(cPend.n, Len(buf["in"]))
          /\ ids = Prefix(buf["in"], Len(ids))
          /\ buf' = [buf EXCEPT !["in"] = Drop(@, Len(ids))]
  /\ cRecv' = cRecv \o ids
  /\ cEof' = (cEof \/ eof)
  /\ cPend' = NoPend
  /\ noProg' = 0
  /\ UNCHANGED <<pOpen, cOpen, cAlive, now, written, inAcc, sanity>>
  /\ EnvStepUnchanged

\* `ids` of the child's pending write enter the pipe; done: the write has completed
ChildWr(s, ids, done) ==
  /\ cAlive /\ cPend.op = "wr" /\ cPend.s = s
  /\ IF s \notin piped \/ ~cOpen[s]
     THEN ids = <<>> /\ done /\ buf' = buf /\ written' = written
     ELSE /\ pOpen[s]
          /\ ids = Prefix(cPend.ids, Len(ids))
          /\ Len(ids) <= Free(s)
          /\ IF cPend.total <= k THEN Len(ids) = Len(cPend.ids) ELSE Len(ids) = Min(Len(cPend.ids), Free(s))
          /\ done = (Len(ids) = Len(cPend.ids))
          /\ Len(ids) > 0
          /\ buf' = [buf EXCEPT ![s] = @ \o ids]
          /\ written' = [written EXCEPT ![s] = @ \o ids]
  /\ cPend' = IF done THEN NoPend ELSE [cPend EXCEPT !.ids = Drop(@, Len(ids))]
  /\ noProg' = 0
  /\ UNCHANGED <<pOpen, cOpen, cAlive, now, inAcc, cRecv, cEof, sanity>>
  /\ EnvStepUnchanged

\* the child writes to a pipe whose reader is gone: SIGPIPE kills it, all its ends close
ChildEpipe(s) ==
  /\ cAlive /\ cPend.op = "wr" /\ cPend.s = s /\ s \in piped /\ cOpen[s] /\ ~pOpen[s]
  /\ cAlive' = FALSE /\ cPend' = NoPend
  /\ cOpen' = [x \in Streams |-> FALSE]
  /\ noProg' = 0
  /\ UNCHANGED <<buf, pOpen, now, written, inAcc, cRecv, cEof, sanity>>
  /\ EnvStepUnchanged

ChildClose(s) ==
  /\ cAlive /\ cPend.op = "close" /\ cPend.s = s
  /\ cOpen' = [cOpen EXCEPT ![s] = FALSE]
  /\ cPend' = NoPend
  /\ noProg' = 0
  /\ UNCHANGED <<buf, pOpen, cAlive, now, written, inAcc, cRecv, cEof, sanity>>
  /\ EnvStepUnchanged

ChildExit ==
  /\ cAlive /\ cPend.op = "exit"
  /\ cAlive' = FALSE /\ cPend' = NoPend
  /\ cOpen' = [x \in Streams |-> FALSE]
  /\ noProg' = 0
  /\ UNCHANGED <<buf, pOpen, now, written, inAcc, cRecv, cEof, sanity>>
  /\ EnvStepUnchanged

ChildWake ==
  /\ cAlive /\ cPend.op = "sleep" /\ TLe(cPend.until, now)
  /\ cPend' = NoPend
  /\ noProg' = 0
  /\ UNCHANGED <<buf, pOpen, cOpen, cAlive, now, written, inAcc, cRecv, cEof, sanity>>
  /\ EnvStepUnchanged

Tick(t) ==
  /\ TLt(now, t)
  /\ now' = t
  /\ noProg' = 0
  /\ UNCHANGED <<buf, pOpen, cOpen, cPend, cAlive, written, inAcc, cRecv, cEof, sanity>>
  /\ EnvStepUnchanged

\* ---------------------------------------------------------------- the library's interface: API
\* C02: with all input handed over, the library must not wait or return with stdin still open
InputDoneButOpen == "in" \in piped /\ pOpen["in"] /\ inAcc = input

Call(lim, tl) ==
  /\ ~inCall
  /\ inCall' = TRUE /\ limit' = lim
  /\ dl' = IF tl = NoTime THEN NoTime ELSE TAdd(now, tl)
  /\ sawEof' = [s \in Outs |-> FALSE]
  /\ after' = [x \in {"poll", "write", "out", "err"} |-> 0]
  /\ noProg' = 0
  /\ UNCHANGED <<piped, cap, k, short, input, flood, buf, pOpen, cOpen, cPend, cAlive, now, written, delivered,
                 inAcc, cRecv, cEof, pwDone, viol, sanity>>

\* hasOut/hasErr: the returned option is Some; out/err: its content (<<>> when None)
\* textOk: for the text-returning variant, the strings equal the lossy UTF-8 decoding of the returned bytes
\* strict: the communicator reads only what it returns (the poll-based one); the thread-based one reads ahead by design
RetS(kind, hasOut, out, hasErr, err, textOk, strict) ==
  /\ inCall
  /\ inCall' = FALSE
  /\ LET r == [o \in Outs |-> IF o = "out" THEN out ELSE err]
         has == [o \in Outs |-> IF o = "out" THEN hasOut ELSE hasErr]
         nd == [o \in Outs |-> delivered[o] \o r[o]]
         total == Len(out) + Len(err)
         complete == kind = "ok" /\ limit = -1
         allEmpty == out = <<>> /\ err = <<>>
     IN
     /\ delivered' = nd
     /\ viol' = viol
          \cup V(kind # "panic", "C01_panic")
          \cup V(limit >= 0 => kind # "panic", "C03_limited_read_panics")
          \cup V(dl # NoTime => kind # "panic", "C04_timed_read_panics")
          \cup V(textOk, "C02_text_is_lossy_decoding_of_the_bytes")
          \* (the text-returning variant under a size limit: each piece is the decoding of exactly the bytes of that piece)
          \cup V(limit >= 0 => textOk, "C03_text_pieces_exact")
          \cup V(kind # "panic" => \A o \in Outs : has[o] = (o \in piped), "C02_absent_iff_not_piped")
          \cup V(\A o \in Outs : IsPrefixOf(nd[o], written[o]), "C02_out_exact")
          \* C04: the same under a time limit, across timed-out and resumed reads
          \cup V(dl # NoTime => \A o \in Outs : IsPrefixOf(nd[o], written[o]), "C04_no_output_lost_or_repeated_across_resumed_reads")
          \cup V(complete => \A o \in Outs \cap piped : nd[o] = written[o] /\ buf[o] = <<>> /\ ~cOpen[o],
                 "C02_out_complete")
          \* (input that the child can no longer receive -- it has closed its end -- is not owed)
          \cup V(complete /\ "in" \in piped => (inAcc = input \/ ~cOpen["in"]) /\ ~pOpen["in"], "C02_in_complete")
          \cup V(kind \in {"ok", "timedout"} => ~InputDoneButOpen, "C02_in_eof_prompt")
          \cup V(limit >= 0 /\ kind \in {"ok", "timedout"} => total <= limit, "C03_limit")
          \cup V(kind = "ok" /\ allEmpty => \A o \in Outs \cap piped : buf[o] = <<>> /\ ~cOpen[o],
                 "C03_empty_is_eof")
          \* C03: under a size limit the pieces are consecutive and exact, and when the all-empty end marker comes
          \* their concatenation is everything the child wrote
          \cup V(limit >= 0 => \A o \in Outs : IsPrefixOf(nd[o], written[o]), "C03_pieces_consecutive_and_exact")
          \cup V(limit >= 0 /\ kind = "ok" /\ allEmpty => \A o \in Outs \cap piped : nd[o] = written[o],
                 "C03_pieces_consecutive_and_exact")
          \* whatever the library has taken out of a pipe it hands to the caller with this very return (in the result or
          \* with the error): nothing sits in a buffer of its own where the next poll() cannot see it
          \cup V(strict /\ kind # "panic" => \A o \in Outs \cap piped : Len(nd[o]) = Len(written[o]) - Len(buf[o]),
                 "C03_nothing_read_is_held_back")
          \cup V(strict /\ kind # "panic" /\ dl # NoTime => \A o \in Outs \cap piped : Len(nd[o]) = Len(written[o]) - Len(buf[o]),
                 "C04_nothing_read_is_held_back")
          \cup V(kind = "timedout" => dl # NoTime /\ TLt(dl, TAdd(now, Ms(1))), "C04_truthful")
  /\ UNCHANGED <<piped, cap, k, short, input, flood, buf, pOpen, cOpen, cPend, cAlive, now, limit, dl, sawEof,
                 written, inAcc, cRecv, cEof, pwDone, after, noProg, sanity>>

Ret(kind, hasOut, out, hasErr, err, textOk) == RetS(kind, hasOut, out, hasErr, err, textOk, TRUE)

\* Memory was refused (fault injection) and the process aborted, as a Rust program does when an allocation fails:
\* the exchange is over, nothing was returned, nothing is claimed.
RetOom ==
  /\ inCall /\ inCall' = FALSE
  /\ UNCHANGED <<piped, cap, k, short, input, flood, buf, pOpen, cOpen, cPend, cAlive, now, limit, dl, sawEof,
                 written, delivered, inAcc, cRecv, cEof, pwDone, after, noProg, viol, sanity>>

\* ---------------------------------------------------------------- the library's interface: system calls
\* monitor bookkeeping shared by the system-call actions
AfterBump(x) == IF inCall /\ Expired THEN [after EXCEPT ![x] = @ + 1] ELSE after
AfterOk(a) == a["poll"] <= 2 /\ a["write"] <= 2 /\ a["out"] <= 2 /\ a["err"] <= 2
SpinOk(n) == n <= 6

\* C04: under a deadline no poll may ask to wait beyond it (to the millisecond granularity of the call): a wait that
\* is restarted with its full timeout after an interruption, or an unbounded one, lets the call overrun its limit
\* clk = the library's latest clock reading, fresh = it was taken after the previous wait.  (The wait is not measured
\* from the instant the poll really starts: a thread may be held up between computing the timeout and the call.)
PollWaitOk(tmo, clk, fresh) ==
  ~inCall \/ dl = NoTime \/ (tmo >= 0 /\ (tmo = 0 \/ (fresh /\ TLe(TAdd(clk, Ms(tmo)), TAdd(dl, Ms(1))))))

\* poll returns: fds = polled streams, tmo in ms (-1 = infinite), t0 = instant of the call,
\* rev = [s \in fds -> set of flags]
PPoll(fds, tmo, t0, rev, clk, fresh) ==
  /\ \A s \in fds : s \in piped /\ pOpen[s]
  /\ TLe(t0, now)
  /\ \A s \in fds : rev[s] = Revents(s)
  /\ \/ \E s \in fds : rev[s] # {}
     \/ tmo >= 0 /\ TLe(TAdd(t0, Ms(tmo)), now)
  /\ LET a == IF inCall /\ dl # NoTime /\ TLe(dl, t0) THEN [after EXCEPT !["poll"] = @ + 1] ELSE after
         n == noProg + 1
     IN /\ after' = a /\ noProg' = n
        /\ viol' = viol \cup V(AfterOk(a), "C04_bounded") \cup V(SpinOk(n), "C01_no_spin")
                        \cup V(PollWaitOk(tmo, clk, fresh), "C04_poll_wait_within_deadline")
  /\ UNCHANGED <<piped, cap, k, short, input, flood, buf, pOpen, cOpen, cPend, cAlive, now, inCall, limit, dl,
                 sawEof, written, delivered, inAcc, cRecv, cEof, pwDone, sanity>>

\* a poll(tmo) was interrupted by a signal (EINTR): nothing happened in the kernel, but the wait it
\* asked for is judged like that of a poll that returned
PPollEintr(tmo, clk, fresh) ==
  /\ viol' = viol \cup V(PollWaitOk(tmo, clk, fresh), "C04_poll_wait_within_deadline")
  /\ UNCHANGED <<piped, cap, k, short, input, flood, buf, pOpen, cOpen, cPend, cAlive, now, inCall, limit, dl,
                 sawEof, written, delivered, inAcc, cRecv, cEof, pwDone, after, noProg, sanity>>

\* the library blocks in a system call (it has to wait for the environment)
PBlock ==
  /\ viol' = viol \cup V(inCall => ~InputDoneButOpen, "C02_in_eof_prompt")
  /\ UNCHANGED <<piped, cap, k, short, input, flood, buf, pOpen, cOpen, cPend, cAlive, now, inCall, limit, dl,
                 sawEof, written, delivered, inAcc, cRecv, cEof, pwDone, after, noProg, sanity>>

\* read(fd of stream s, want units) returned ids (<<>> = end-of-file)
PRead(s, want, ids) ==
  /\ s \in Outs /\ s \in piped /\ pOpen[s]
  /\ IF ids = <<>>
     THEN want = 0 \/ (buf[s] = <<>> /\ ~cOpen[s])
     ELSE /\ Len(ids) <= want /\ Len(ids) <= Len(buf[s])
          /\ ids = Prefix(buf[s], Len(ids))
          /\ short \/ Len(ids) = Min(want, Len(buf[s]))
  /\ buf' = [buf EXCEPT ![s] = Drop(@, Len(ids))]
  /\ LET progress == ids # <<>> \/ ~sawEof[s]
         a == AfterBump(s)
         n == IF progress THEN 0 ELSE noProg + 1
     IN /\ after' = a /\ noProg' = n
        /\ viol' = viol \cup V(AfterOk(a), "C04_bounded") \cup V(SpinOk(n), "C01_no_spin")
  /\ sawEof' = IF ids = <<>> THEN [sawEof EXCEPT ![s] = TRUE] ELSE sawEof
  /\ UNCHANGED <<piped, cap, k, short, input, flood, pOpen, cOpen, cPend, cAlive, now, inCall, limit, dl,
                 written, delivered, inAcc, cRecv, cEof, pwDone, sanity>>

\* part of a large (> PIPE_BUF) blocking write enters the pipe while the call is still blocked
PWpart(ids) ==
  /\ "in" \in piped /\ pOpen["in"] /\ cOpen["in"]
  /\ Len(ids) > 0 /\ Len(ids) <= Free("in")
  /\ buf' = [buf EXCEPT !["in"] = @ \o ids]
  /\ inAcc' = inAcc \o ids
  /\ pwDone' = pwDone + Len(ids)
  /\ noProg' = 0
  /\ viol' = viol \cup V(IsPrefixOf(inAcc \o ids, input), "C02_in_exact")
                   \cup V(dl # NoTime => IsPrefixOf(inAcc \o ids, input), "C04_input_delivered_exactly_once_across_resumed_reads")
                   \cup V(limit >= 0 => IsPrefixOf(inAcc \o ids, input), "C03_input_delivered_exactly_once_across_limited_reads")
  /\ UNCHANGED <<piped, cap, k, short, input, flood, pOpen, cOpen, cPend, cAlive, now, inCall, limit, dl, sawEof,
                 written, delivered, cRecv, cEof, after, sanity>>

\* write(stdin, ids) returned n >= 0 units accepted
PWrite(ids, n) ==
  /\ "in" \in piped /\ pOpen["in"]
  /\ n <= Len(ids)
  /\ LET rest == SubSeq(ids, pwDone + 1, n) IN
     /\ IF ids = <<>> THEN n = 0
        ELSE IF Len(ids) <= k
        THEN /\ pwDone = 0 /\ cOpen["in"] /\ n >= 1 /\ n <= Free("in")
             /\ short \/ n = Len(ids)
             /\ Len(ids) <= Free("in")
        ELSE /\ pwDone <= n
             /\ Len(rest) <= Free("in")
             /\ n = Len(ids) \/ (~cOpen["in"] /\ n = pwDone /\ n >= 1)
     /\ buf' = [buf EXCEPT !["in"] = @ \o rest]
     /\ inAcc' = inAcc \o rest
     /\ LET a == AfterBump("write")
            m == IF n > 0 THEN 0 ELSE noProg + 1
        IN /\ after' = a /\ noProg' = m
           /\ viol' = viol \cup V(IsPrefixOf(inAcc \o rest, input), "C02_in_exact")
                           \cup V(dl # NoTime => IsPrefixOf(inAcc \o rest, input), "C04_input_delivered_exactly_once_across_resumed_reads")
                           \cup V(limit >= 0 => IsPrefixOf(inAcc \o rest, input), "C03_input_delivered_exactly_once_across_limited_reads")
                           \cup V(AfterOk(a), "C04_bounded") \cup V(SpinOk(m), "C01_no_spin")
  /\ pwDone' = 0
  /\ UNCHANGED <<piped, cap, k, short, input, flood, pOpen, cOpen, cPend, cAlive, now, inCall, limit, dl, sawEof,
                 written, delivered, cRecv, cEof, sanity>>

\* write(stdin, ...) failed with EPIPE: the child has closed its end
PWriteEpipe ==
  /\ "in" \in piped /\ pOpen["in"] /\ ~cOpen["in"]
  /\ LET a == AfterBump("write") IN
     /\ after' = a
     /\ viol' = viol \cup V(AfterOk(a), "C04_bounded")
  /\ noProg' = 0
  /\ UNCHANGED <<piped, cap, k, short, input, flood, buf, pOpen, cOpen, cPend, cAlive, now, inCall, limit, dl,
                 sawEof, written, delivered, inAcc, cRecv, cEof, pwDone, sanity>>

\* a read() or write() of the library had to wait (from `since` until now) before it returned.  Such a call cannot be
\* cut short: under a deadline, sitting in one across the deadline means the limit is not honoured -- the exchange is
\* at the child's mercy (C04: "no later than t plus one bounded I/O step")
PIoWait(since) ==
  /\ viol' = viol \cup V(~(inCall /\ dl # NoTime /\ TLt(TAdd(dl, Ms(1)), now)), "C04_blocked_in_io_past_the_deadline")
  /\ UNCHANGED <<piped, cap, k, short, input, flood, buf, pOpen, cOpen, cPend, cAlive, now, inCall, limit, dl,
                 sawEof, written, delivered, inAcc, cRecv, cEof, pwDone, after, noProg, sanity>>

\* a system call of the library failed with EINTR (nothing happened in the kernel)
PEintr == UNCHANGED envvars

PClose(s) ==
  /\ s \in piped /\ pOpen[s]
  /\ pOpen' = [pOpen EXCEPT ![s] = FALSE]
  /\ noProg' = 0
  \* closing stdin inside a call before all input was handed over truncates the child's input (unless the child
  \* has already closed its end: then nothing more could have been delivered)
  /\ viol' = viol \cup V(s = "in" /\ inCall /\ cOpen["in"] => inAcc = input, "C02_in_early_close")
                   \* C03, last sentence: a read cut short by the size limit leaves the rest of the input to later reads --
                   \* it does not close the child's standard input on what has not been handed over yet
                   \cup V(s = "in" /\ inCall /\ limit >= 0 /\ cOpen["in"] => inAcc = input,
                          "C03_input_dropped_by_limited_read")
  /\ UNCHANGED <<piped, cap, k, short, input, flood, buf, cOpen, cPend, cAlive, now, inCall, limit, dl, sawEof,
                 written, delivered, inAcc, cRecv, cEof, pwDone, after, sanity>>

\* ---------------------------------------------------------------- terminal observations
\* The library is blocked for good: its call cannot complete, the child cannot move, no timer is
\* pending.  Enabled only if the specification's kernel agrees that nothing can happen.
Stuck(hasTimer) ==
  /\ ~ChildCanStep /\ ~ChildSleeping /\ ~hasTimer
  /\ viol' = viol \cup {"C01_deadlock", "C02_exchange_never_completes"}
                   \cup (IF limit >= 0 THEN {"C03_limited_exchange_never_completes"} ELSE {})
                   \cup (IF dl # NoTime THEN {"C04_blocked_in_io_past_the_deadline"} ELSE {})
  /\ UNCHANGED <<piped, cap, k, short, input, flood, buf, pOpen, cOpen, cPend, cAlive, now, inCall, limit, dl,
                 sawEof, written, delivered, inAcc, cRecv, cEof, pwDone, after, noProg, sanity>>

\* The library kept issuing system calls far beyond what a finite exchange needs.
Runaway ==
  /\ viol' = viol \cup (IF flood THEN {"C04_bounded"} ELSE {"C01_no_spin"})
  /\ UNCHANGED <<piped, cap, k, short, input, flood, buf, pOpen, cOpen, cPend, cAlive, now, inCall, limit, dl,
                 sawEof, written, delivered, inAcc, cRecv, cEof, pwDone, after, noProg, sanity>>

\* ---------------------------------------------------------------- environment self-consistency
\* (violations of these mean the kernel model / simulated kernel is wrong, never the library)
EnvConsistent ==
  /\ \A s \in Streams : Len(buf[s]) <= cap
  /\ "in" \in piped => cRecv \o buf["in"] = inAcc
=============================================================================
