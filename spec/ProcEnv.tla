------------------------------- MODULE ProcEnv -------------------------------
(***************************************************************************)
(* L1 of the child-lifecycle specification (C09, C10, C11, part of C12):   *)
(* one child in the kernel's process table (running -> zombie -> reaped by *)
(* us | reaped by somebody else -> pid reused by an alien process), a      *)
(* clock, the handle (Popen) seen only through its API calls / returns and *)
(* the waitpid / kill / sleep system calls it issues, and the monitors.    *)
(* Time is <<seconds, nanoseconds>>.  A status is [k, v] with              *)
(* k in {"exited","signaled","undetermined","other"}.                      *)
(***************************************************************************)
EXTENDS Naturals, Integers, Sequences, FiniteSets, TLC

VARIABLES
  cst,        \* "running" | "zombie" | "reaped_us" | "reaped_ext" | "alien"
  truth,      \* the child's real termination status (NoSt while running)
  exitT,      \* instant of the exit (NoTime while running)
  now,
  det,        \* the handle is detached
  known,      \* first status the handle reported (NoSt before)
  op, opD, opN, t0, \* API call in progress ("none" outside), its duration/number argument, start instant
  knownAtCall,\* `known` when the call in progress started
  nwait,      \* waitpid calls in this API call
  slept,      \* a sleep > 0 happened since the last waitpid of this call
  nsys,       \* waitpid/kill/sleep calls in this API call
  nkill,      \* kill calls in this API call
  killOk,     \* result of the kill of this call was 0
  told,       \* a waitpid of the handle has returned the child's status or ECHILD: it has been told the child is gone
  eintr,      \* a system call of this API call was interrupted by a signal (EINTR)
  viol

pvars == <<cst, truth, exitT, now, det, known, op, opD, opN, t0, knownAtCall, nwait, slept, nsys, nkill, killOk,
           told, eintr, viol>>

NoSt == [k |-> "none", v |-> 0]
NoTime == <<>>
VPid == 1000
SIGTERM == 15
SIGKILL == 9

TLe(a, b) == a[1] < b[1] \/ (a[1] = b[1] /\ a[2] <= b[2])
TLt(a, b) == a[1] < b[1] \/ (a[1] = b[1] /\ a[2] < b[2])
TAdd(a, b) == LET n == a[2] + b[2] IN
              IF n >= 1000000000 THEN <<a[1] + b[1] + 1, n - 1000000000>> ELSE <<a[1] + b[1], n>>
TMax(a, b) == IF TLe(a, b) THEN b ELSE a
\* n * d for d a whole number of milliseconds below one second
TMulMs(n, d) == LET ms == d[2] \div 1000000
                    perS == 1000 \div ms
                IN IF d = <<0, 0>> THEN <<0, 0>> ELSE <<n \div perS, (n % perS) * d[2]>>
V(ok, name) == IF ok THEN {} ELSE {name}

Slack == <<0, 20000000>>        \* 20 ms: "a small slack" of wait_timeout
Prompt == <<0, 120000000>>      \* "roughly a tenth of a second" after the exit (+ slack)
AtOnce == <<0, 100000>>         \* "immediately": no sleeping, no waiting -- only the time the library's own code takes

IsStatus(r) == r.k \in {"exited", "signaled", "undetermined", "other"}
Observed == known # NoSt
\* upper bound on status checks of one wait_timeout(d): 20 + d / 10 ms
MaxChecks(d) == 20 + d[1] * 100 + d[2] \div 10000000

PReset(d0) ==
  /\ cst' = "running" /\ truth' = NoSt /\ exitT' = NoTime /\ now' = <<0, 0>> /\ det' = d0
  /\ known' = NoSt /\ op' = "none" /\ opD' = <<0, 0>> /\ opN' = 0 /\ t0' = <<0, 0>> /\ knownAtCall' = NoSt
  /\ nwait' = 0 /\ slept' = FALSE /\ nsys' = 0 /\ nkill' = 0 /\ killOk' = TRUE /\ told' = FALSE /\ eintr' = FALSE /\ viol' = {}

PInit(d0) ==
  /\ cst = "running" /\ truth = NoSt /\ exitT = NoTime /\ now = <<0, 0>> /\ det = d0
  /\ known = NoSt /\ op = "none" /\ opD = <<0, 0>> /\ opN = 0 /\ t0 = <<0, 0>> /\ knownAtCall = NoSt
  /\ nwait = 0 /\ slept = FALSE /\ nsys = 0 /\ nkill = 0 /\ killOk = TRUE /\ told = FALSE /\ eintr = FALSE /\ viol = {}

\* ---------------------------------------------------------------- environment
Exit(st, at) ==
  /\ cst = "running" /\ TLe(now, at)
  /\ cst' = "zombie" /\ truth' = st /\ exitT' = at
  /\ UNCHANGED <<now, det, known, op, opD, opN, t0, knownAtCall, nwait, slept, nsys, nkill, killOk, told, eintr, viol>>

XReap ==
  /\ cst = "zombie" /\ cst' = "reaped_ext"
  /\ UNCHANGED <<truth, exitT, now, det, known, op, opD, opN, t0, knownAtCall, nwait, slept, nsys, nkill, killOk, told, eintr, viol>>

Reuse ==
  /\ cst = "reaped_ext" /\ cst' = "alien"
  /\ UNCHANGED <<truth, exitT, now, det, known, op, opD, opN, t0, knownAtCall, nwait, slept, nsys, nkill, killOk, told, eintr, viol>>

Delay(t) ==
  /\ TLe(now, t) /\ now' = t
  /\ UNCHANGED <<cst, truth, exitT, det, known, op, opD, opN, t0, knownAtCall, nwait, slept, nsys, nkill, killOk, told, eintr, viol>>

\* ---------------------------------------------------------------- API
Api(o, d, n) ==
  /\ op = "none"
  /\ op' = o /\ opD' = d /\ opN' = n /\ t0' = now /\ knownAtCall' = known
  /\ nwait' = 0 /\ slept' = FALSE /\ nsys' = 0 /\ nkill' = 0 /\ killOk' = TRUE
  /\ eintr' = FALSE
  /\ UNCHANGED <<cst, truth, exitT, now, det, known, told, viol>>

StatusOps == {"poll", "wait", "wait_timeout", "exit_status"}
SignalOps == {"terminate", "kill", "send_signal"}

ApiRet(o, res, t) ==
  /\ op = o /\ TLe(now, t)
  /\ now' = t
  /\ op' = "none"
  /\ det' = (det \/ o = "detach")
  /\ known' = IF o \in StatusOps /\ IsStatus(res) /\ known = NoSt THEN [k |-> res.k, v |-> res.v] ELSE known
  /\ LET st == [k |-> res.k, v |-> res.v]
         deadline == TAdd(t0, opD)
     IN viol' = viol
       \cup V(res.k # "panic", "C09_panic")
       \cup V(o \in {"poll", "wait_timeout"} => res.k # "panic", "C11_panic")
       \cup V(o \in SignalOps => res.k # "panic", "C10_panic")
       \cup V(o = "drop" => res.k # "panic", "C12_panic")
       \* ---- C09
       \cup V(o \in StatusOps /\ IsStatus(res) => cst # "running", "C09_not_early")
       \* C11 says the same of its two calls: an exit status is reported for a child that has exited -- for one that is
       \* alive (running or stopped) the answer is "still running", no sooner than the duration asked for
       \cup V(o \in {"poll", "wait_timeout"} /\ IsStatus(res) => cst # "running", "C11_status_only_of_an_exited_child")
       \cup V(o \in {"poll", "wait_timeout"} => res.k # "other", "C11_status_only_of_an_exited_child")
       \cup V(o \in StatusOps /\ res.k \in {"exited", "signaled"} => st = truth /\ cst = "reaped_us", "C09_truth")
       \cup V(o \in StatusOps /\ res.k = "undetermined" => cst \in {"reaped_ext", "alien"}, "C09_truth")
       \cup V(o \in StatusOps => res.k # "other", "C09_truth")
       \cup V(o \in StatusOps /\ known # NoSt => st = known, "C09_final")
       \* (the one error that is the environment's doing: a signal handler interrupted the wait)
       \cup V(o \in {"poll", "wait", "wait_timeout"} /\ res.k = "err" => eintr /\ res.v = 4 /\ o # "poll", "C09_no_error")
       \cup V(o = "wait" => IsStatus(res) \/ res.k \in {"err", "panic"}, "C09_truth")
       \cup V(o = "pid" => (res.k = "none") = (known # NoSt), "C09_pid_absent_once_known")
       \cup V(o = "pid" /\ res.k = "some" => res.v = VPid, "C09_pid_absent_once_known")
       \cup V(o \in {"pid", "exit_status", "detach"} => nsys = 0, "C09_quiet")
       \* ---- C10
       \* (a status the handle made up without the operating system ever saying the child is gone excuses nothing)
       \cup V(o \in SignalOps /\ knownAtCall # NoSt /\ told => res.k = "ok" /\ nkill = 0, "C10_silent_after_observed")
       \cup V(o \in SignalOps /\ told /\ nkill = 0 => res.k = "ok", "C10_silent_once_found_reaped")
       \cup V(o \in SignalOps /\ ~told => nkill = 1, "C10_exact")
       \cup V(o \in SignalOps /\ ~told /\ nkill = 1 => (res.k = "ok") = killOk, "C10_exact")
       \cup V(o \notin SignalOps => nkill = 0, "C10_exact")
       \* ---- C11
       \cup V(o = "wait_timeout" /\ res.k = "none" => TLe(deadline, t), "C11_not_early")
       \cup V(o = "wait_timeout" /\ res.k = "none" => TLe(t, TAdd(deadline, Slack)), "C11_not_late")
       \* "still running" must have been true at (or after) the deadline: a child that exited before it is reported
       \cup V(o \in {"wait_timeout", "poll"} /\ res.k = "none" /\ knownAtCall = NoSt => exitT = NoTime \/ TLe(deadline, exitT),
              "C11_still_running_only_if_running_at_deadline")
       \* the operating system has told the handle that the child is gone (reaped by it or by somebody else):
       \* from then on a query answers with a status
       \cup V(o \in {"wait_timeout", "poll", "wait"} /\ told => IsStatus(res), "C09_status_once_the_os_said_gone")
       \cup V(o = "wait_timeout" /\ IsStatus(res) /\ exitT # NoTime /\ knownAtCall = NoSt
                => TLe(t, TAdd(TMax(t0, exitT), Prompt)), "C11_prompt")
       \cup V(o \in {"poll", "wait", "wait_timeout"} /\ knownAtCall # NoSt => nsys = 0 /\ TLe(t, TAdd(t0, AtOnce)), "C11_known_at_once")
       \cup V(o = "poll" => TLe(t, TAdd(t0, AtOnce)), "C11_poll_immediate")
       \* ---- C12 (the Popen itself)
       \cup V(o = "drop" /\ ~det => cst \notin {"running", "zombie"}, "C12_reaped")
       \cup V(o = "drop" /\ det => nsys = 0 /\ TLe(t, TAdd(t0, AtOnce)), "C12_detached")
  /\ UNCHANGED <<cst, truth, exitT, opD, opN, t0, knownAtCall, nwait, slept, nsys, nkill, killOk, told, eintr>>

\* ---------------------------------------------------------------- system calls of the handle
\* waitpid(child, nohang?) = ret (0 | VPid | -1/ECHILD) with status st
Waitpid(nohang, ret, st) ==
  /\ \/ ret = 0 /\ cst = "running" /\ nohang /\ UNCHANGED cst
     \/ ret = VPid /\ st.k = "stopped" /\ cst = "running" /\ UNCHANGED cst   \* WUNTRACED: stopped, alive, not reaped
     \/ ret = VPid /\ cst = "zombie" /\ st = truth /\ cst' = "reaped_us"
     \/ ret = -1 /\ cst \in {"reaped_us", "reaped_ext", "alien"} /\ UNCHANGED cst
  /\ nwait' = nwait + 1 /\ nsys' = nsys + 1 /\ slept' = FALSE
  /\ told' = (told \/ (ret # 0 /\ st.k # "stopped"))
  /\ viol' = viol
       \cup V(known = NoSt, "C09_quiet")
       \cup V(~told, "C09_quiet")
       \cup V(op # "none", "C09_quiet")
       \cup V(op = "poll" => nohang, "C11_poll_nonblocking")
       \cup V(op = "wait_timeout" => nohang, "C11_wait_timeout_blocks")
       \cup V(op = "wait_timeout" /\ nwait >= 1 => slept \/ TLe(TAdd(t0, opD), now), "C11_no_busy_wait")
       \cup V(op = "wait_timeout" => nwait + 1 <= MaxChecks(opD), "C11_no_busy_wait")
       \cup V(op = "drop" => ~det, "C12_detached")
  /\ UNCHANGED <<truth, exitT, now, det, known, op, opD, opN, t0, knownAtCall, nkill, killOk, eintr>>

\* waitpid was interrupted by a signal handler (EINTR): nothing happened to the child, nothing was learnt about it
\* (it does not count as a status check: waiting again at once is the right thing to do)
WaitpidEintr(nohang) ==
  /\ nwait' = nwait /\ nsys' = nsys + 1 /\ eintr' = TRUE
  /\ viol' = viol \cup V(known = NoSt, "C09_quiet") \cup V(op # "none", "C09_quiet")
  /\ UNCHANGED <<cst, truth, exitT, now, det, known, op, opD, opN, t0, knownAtCall, slept, nkill, killOk, told>>

\* waitpid asked (with __WNOTHREAD) only about children of the calling thread, and this thread did not fork the child:
\* ECHILD although the child is what it is -- the kernel has said nothing about it
WaitpidNoThread(nohang) ==
  /\ nwait' = nwait + 1 /\ nsys' = nsys + 1
  /\ viol' = viol \cup V(known = NoSt, "C09_quiet") \cup V(op # "none", "C09_quiet")
  /\ UNCHANGED <<cst, truth, exitT, now, det, known, op, opD, opN, t0, knownAtCall, slept, nkill, killOk, told, eintr>>

\* a blocking waitpid really had to wait (forever = TRUE: the child never exits by itself)
WaitBlock ==
  /\ cst = "running"
  /\ viol' = viol
       \cup V(op # "poll", "C11_poll_nonblocking")
       \cup V(op # "wait_timeout", "C11_wait_timeout_blocks")
       \cup V(op = "drop" => ~det, "C12_detached")
  /\ UNCHANGED <<cst, truth, exitT, now, det, known, op, opD, opN, t0, knownAtCall, nwait, slept, nsys, nkill, killOk, told, eintr>>

\* kill(pid, sig) = ret
Kill(pid, sig, ret) ==
  /\ (ret = 0) = (cst \in {"running", "zombie", "alien"}) \/ sig < 0 \/ sig > 64
  /\ nkill' = nkill + 1 /\ nsys' = nsys + 1 /\ killOk' = (ret = 0)
  /\ viol' = viol
       \cup V(pid = VPid, "C10_exact")
       \cup V(known = NoSt \/ ~told, "C10_silent_after_observed")
       \cup V(~told, "C10_silent_once_found_reaped")
       \cup V(op \in SignalOps, "C10_exact")
       \cup V(op = "terminate" => sig = SIGTERM, "C10_exact")
       \cup V(op = "kill" => sig = SIGKILL, "C10_exact")
       \cup V(op = "send_signal" => sig = opN, "C10_exact")
       \cup V(nkill = 0, "C10_exact")
  /\ UNCHANGED <<cst, truth, exitT, now, det, known, op, opD, opN, t0, knownAtCall, nwait, slept, told, eintr>>

\* the handle touched a process that is not its child
ForeignKill ==
  /\ viol' = viol \cup {"C10_exact"}
  /\ UNCHANGED <<cst, truth, exitT, now, det, known, op, opD, opN, t0, knownAtCall, nwait, slept, nsys, nkill, killOk, told, eintr>>
ForeignWait ==
  /\ viol' = viol \cup {"C09_quiet"}
  /\ UNCHANGED <<cst, truth, exitT, now, det, known, op, opD, opN, t0, knownAtCall, nwait, slept, nsys, nkill, killOk, told, eintr>>

\* sleep(d) returned at instant t
Sleep(d, t) ==
  /\ TLe(TAdd(now, d), t)
  /\ now' = t /\ nsys' = nsys + 1 /\ slept' = (slept \/ d # <<0, 0>>)
  /\ viol' = viol
       \cup V(op # "poll", "C11_poll_nonblocking")
       \cup V(op = "wait_timeout", "C11_sleep_outside_wait_timeout")
  /\ UNCHANGED <<cst, truth, exitT, det, known, op, opD, opN, t0, knownAtCall, nwait, nkill, killOk, told, eintr>>

\* n consecutive pairs (waitpid(nohang) = 0 ; sleep(d)) during which nothing else happened
BkRun(n, d, t) ==
  /\ cst = "running" /\ n >= 1
  /\ t = TAdd(now, IF n = 1 THEN d ELSE TMulMs(n, d))
  /\ now' = t /\ nwait' = nwait + n /\ nsys' = nsys + 2 * n /\ slept' = (d # <<0, 0>>)
  /\ viol' = viol
       \cup V(known = NoSt, "C09_quiet")
       \cup V(op = "wait_timeout", "C11_poll_nonblocking")
       \cup V(op = "wait_timeout" /\ nwait >= 1 => slept \/ TLe(TAdd(t0, opD), now), "C11_no_busy_wait")
       \cup V(n > 1 => d # <<0, 0>>, "C11_no_busy_wait")
       \cup V(op = "wait_timeout" => nwait + n <= MaxChecks(opD), "C11_no_busy_wait")
  /\ UNCHANGED <<cst, truth, exitT, det, known, op, opD, opN, t0, knownAtCall, nkill, killOk, told, eintr>>

Runaway ==
  /\ viol' = viol \cup {"C11_no_busy_wait"}
  /\ UNCHANGED <<cst, truth, exitT, now, det, known, op, opD, opN, t0, knownAtCall, nwait, slept, nsys, nkill, killOk, told, eintr>>

\* A call of the library that was found to loop for ever (300 000 system calls into one call, long after time was let
\* fly): it never returns.  Named for the property the call belongs to.
Stuck ==
  /\ viol' = viol \cup {"C11_no_busy_wait"}
                  \cup (IF op \in {"wait", "poll", "wait_timeout", "exit_status", "pid"} THEN {"C09_call_never_returns"} ELSE {})
                  \cup (IF op \in {"poll", "wait_timeout"} THEN {"C11_call_never_returns"} ELSE {})
                  \cup (IF op \in {"terminate", "kill", "send_signal"} THEN {"C10_call_never_returns"} ELSE {})
                  \cup (IF op = "drop" THEN {"C12_drop_never_returns"} ELSE {})
  /\ UNCHANGED <<cst, truth, exitT, now, det, known, op, opD, opN, t0, knownAtCall, nwait, slept, nsys, nkill, killOk, told, eintr>>
=============================================================================
