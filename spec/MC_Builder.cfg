SPECIFICATION Spec
CONSTANT MaxOps = 4
INVARIANT Refines
CHECK_DEADLOCK FALSE
