CONSTANTS
  StateAtFork = TRUE
  RetryEintr = FALSE
  ClearDetached = TRUE
  DecodeInLoop = FALSE
  Errnos = {2, 4, 5, 13}
SPECIFICATION Spec
INVARIANT Safe
PROPERTY Returns
PROPERTY Terminates
CHECK_DEADLOCK FALSE
