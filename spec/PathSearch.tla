------------------------------ MODULE PathSearch ------------------------------
(***************************************************************************)
(* L2 of C15 (and of C17's "everything is prepared before the fork" for    *)
(* the executable's name): prep_exec / PrepExec::new / PrepExec::exec /    *)
(* assemble_exe / split_path of src/posix.rs, one action per exec attempt. *)
(*                                                                         *)
(*   before the fork:  search := the name has no '/' and the parent's PATH *)
(*                     is set and not the empty string;  a buffer is       *)
(*                     allocated for <longest non-empty entry>/<name>NUL   *)
(*   in the child:     no search: exec the name as given;                  *)
(*                     search: for each NON-EMPTY entry in order assemble  *)
(*                     <entry>/<name> in the buffer and exec it; a failed  *)
(*                     attempt leaves its errno; after the last entry the  *)
(*                     last errno (ENOENT if there was no attempt at all)  *)
(*                     is reported                                         *)
(*                                                                         *)
(* A PATH entry is [kind, len]: what exec makes of <entry>/<name>          *)
(* ("ok" runs it, "missing" ENOENT, "noexec"/"dir" EACCES, "garbage"       *)
(* ENOEXEC, "toolong" ENAMETOOLONG), "empty" for an empty entry, and the   *)
(* entry's length.  Growing the buffer in the child is an allocation.      *)
(* Switches (the code = the first value):                                  *)
(*   SkipEmpty      TRUE | FALSE   empty entries name nothing / the        *)
(*                                 working directory (execvp's reading)    *)
(*   ShellFallback  FALSE | TRUE   ENOEXEC is an error / the file is run   *)
(*                                 through sh (execvp's reading)           *)
(*   PreallocLongest TRUE | FALSE  room for the longest entry / for the    *)
(*                                 first entry only                        *)
(*   StartErr       ENOENT | 0     what is reported when no attempt was    *)
(*                                 made (0 = "falls through as success",   *)
(*                                 the pinned code: F13)                   *)
(***************************************************************************)
EXTENDS Naturals, Sequences, FiniteSets, TLC

CONSTANTS SkipEmpty, ShellFallback, PreallocLongest, StartErr,
          MaxEntries, Lens          \* PATH shapes explored: up to MaxEntries entries, entry lengths from Lens

ENOENT == 2
EACCES == 13
ENOEXEC == 8
ENAMETOOLONG == 36
Kinds == {"ok", "missing", "noexec", "dir", "garbage", "toolong", "empty"}
ErrnoOf(k) == CASE k = "missing" -> ENOENT [] k \in {"noexec", "dir"} -> EACCES [] k = "garbage" -> ENOEXEC
                [] k = "toolong" -> ENAMETOOLONG [] OTHER -> 0
Entry == [kind : Kinds \ {"empty"}, len : Lens] \cup {[kind |-> "empty", len |-> 0]}
RECURSIVE Paths(_)
Paths(n) == IF n = 0 THEN {<<>>} ELSE Paths(n - 1) \cup {Append(p, e) : p \in {q \in Paths(n - 1) : Len(q) = n - 1}, e \in Entry}

VARIABLES
  path,       \* the entries of the parent's PATH (<<>> with pathSet = FALSE: unset; <<>> with TRUE: the empty string)
  pathSet,
  slash,      \* the name contains a '/'
  given,      \* what exec makes of the name as given (relative to the child's working directory)
  cmdlen,
  pc,         \* "prep" | "child" | "done"
  search, i, cap, allocs, err,
  ran         \* [how |-> "none" | "entry" | "given" | "cwd" | "shell", idx |-> entry index]

vars == <<path, pathSet, slash, given, cmdlen, pc, search, i, cap, allocs, err, ran>>
None == [how |-> "none", idx |-> 0]

Init ==
  /\ path \in Paths(MaxEntries) /\ pathSet \in BOOLEAN /\ (~pathSet => path = <<>>)
  /\ slash \in BOOLEAN /\ given \in {"ok", "missing", "garbage"} /\ cmdlen \in {2, 7}
  /\ pc = "prep" /\ search = FALSE /\ i = 1 /\ cap = 0 /\ allocs = 0 /\ err = 0 /\ ran = None

Max(S) == IF S = {} THEN 0 ELSE CHOOSE x \in S : \A y \in S : x >= y
NonEmptyLens == {path[k].len : k \in {j \in 1..Len(path) : path[j].kind # "empty"}}

\* prep_exec + PrepExec::new, before the fork
Prep ==
  /\ pc = "prep"
  /\ search' = (~slash /\ pathSet /\ path # <<>>)
  /\ cap' = cmdlen + 1 + (IF search' THEN 1 + (IF PreallocLongest THEN Max(NonEmptyLens)
                                                 ELSE (IF NonEmptyLens = {} THEN 0 ELSE path[1].len)) ELSE 0)
  /\ err' = StartErr
  /\ pc' = "child"
  /\ UNCHANGED <<path, pathSet, slash, given, cmdlen, i, allocs, ran>>

Assemble(need) ==          \* assemble_exe: truncate(0), extend, push(0) -- grows (allocates) when the room is short
  IF need > cap THEN allocs' = allocs + 1 /\ cap' = need ELSE UNCHANGED <<allocs, cap>>

\* the forked child, no search: the name as given
ExecGiven ==
  /\ pc = "child" /\ ~search
  /\ Assemble(cmdlen + 1)
  /\ IF given = "ok" \/ (given = "garbage" /\ ShellFallback)
     THEN ran' = [how |-> IF given = "ok" THEN "given" ELSE "shell", idx |-> 0] /\ UNCHANGED err
     ELSE err' = ErrnoOf(given) /\ UNCHANGED ran
  /\ pc' = "done"
  /\ UNCHANGED <<path, pathSet, slash, given, cmdlen, search, i>>

\* the forked child, one PATH entry
Attempt ==
  /\ pc = "child" /\ search /\ i <= Len(path)
  /\ LET e == path[i] IN
     IF e.kind = "empty" /\ SkipEmpty
     THEN i' = i + 1 /\ UNCHANGED <<cap, allocs, err, ran, pc>>
     ELSE /\ Assemble(e.len + 1 + cmdlen + 1)
          /\ LET k == IF e.kind = "empty" THEN given ELSE e.kind IN      \* (an empty entry read as "." names the file in the cwd)
             IF k = "ok" \/ (k = "garbage" /\ ShellFallback)
             THEN /\ ran' = [how |-> IF k = "garbage" THEN "shell" ELSE IF e.kind = "empty" THEN "cwd" ELSE "entry", idx |-> i]
                  /\ pc' = "done" /\ UNCHANGED <<err, i>>
             ELSE err' = ErrnoOf(k) /\ i' = i + 1 /\ UNCHANGED <<ran, pc>>
  /\ UNCHANGED <<path, pathSet, slash, given, cmdlen, search>>

GiveUp ==
  /\ pc = "child" /\ search /\ i > Len(path)
  /\ pc' = "done"
  /\ UNCHANGED <<path, pathSet, slash, given, cmdlen, search, i, cap, allocs, err, ran>>

Next == Prep \/ ExecGiven \/ Attempt \/ GiveUp \/ (pc = "done" /\ UNCHANGED vars)
Spec == Init /\ [][Next]_vars

\* ------------------------------------------------------------------ C15, stated on the request alone
Searched == ~slash /\ pathSet /\ path # <<>>
Startable == {k \in 1..Len(path) : path[k].kind = "ok"}
First == CHOOSE k \in Startable : \A j \in Startable : k <= j
FirstStartableRuns == (pc = "done" /\ Searched /\ Startable # {}) => ran = [how |-> "entry", idx |-> First]
ErrorWhenNothingStartable == (pc = "done" /\ Searched /\ Startable = {}) => ran = None /\ err # 0
NoSearchForSlashOrEmptyPath ==
  (pc = "done" /\ ~Searched) => IF given = "ok" THEN ran = [how |-> "given", idx |-> 0] ELSE ran = None /\ err = ErrnoOf(given)
\* C17: the name of the executable is assembled without allocating
NoAllocInChild == allocs = 0
Safe == FirstStartableRuns /\ ErrorWhenNothingStartable /\ NoSearchForSlashOrEmptyPath /\ NoAllocInChild

\* ------------------------------------------------------------------ behaviours for replay into the real code
Kind(k) == path[k].kind
ReplayLine ==
  (pc = "done" /\ Searched /\ \A k \in 1..Len(path) : path[k].len = Max(Lens) \/ path[k].kind = "empty") =>
     PrintT(<<"PATHSEARCH", [k \in 1..Len(path) |-> path[k].kind], ran.how, ran.idx, err>>)
=============================================================================
