SPECIFICATION Spec
CONSTANTS
  Piped = {"in","out"}
  Cap = 1
  K = 1
  ReadBuf = 1
  InLen = 2
  MaxOut = 2
  MaxErr = 0
  MaxChunk = 2
  Limits <- L_12
  TLims <- T_none
  MaxCalls = 2
  MaxNow = 0
  ShortIO = FALSE
  DeadlineCheck = TRUE
  CloseBeforeSend = FALSE
  ClearOnErr = TRUE
INVARIANT NoViolation EnvOk
CONSTRAINT Bound
