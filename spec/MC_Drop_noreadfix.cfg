SPECIFICATION Spec
CONSTANTS
  Cap = 2
  Amount = 4
  CloseFirst = TRUE
  ReadPipeFix = FALSE
  ErrPipeFix = TRUE
  ReleaseAllFix = TRUE
INVARIANT Reaped
