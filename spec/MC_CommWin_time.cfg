SPECIFICATION Spec
CONSTANTS
  Piped = {"in","out","err"}
  Cap = 2
  K = 1
  ReadBuf = 1
  InLen = 2
  MaxOut = 3
  MaxErr = 2
  MaxChunk = 2
  Limits <- L_12
  TLims <- T_012
  MaxCalls = 2
  MaxNow = 3
  ShortIO = FALSE
  DeadlineCheck = TRUE
  CloseBeforeSend = TRUE
INVARIANT NoViolation EnvOk
CONSTRAINT Bound
