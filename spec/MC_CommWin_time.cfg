SPECIFICATION Spec
CONSTANTS
  Piped = {"out","err"}
  Cap = 1
  K = 1
  ReadBuf = 1
  InLen = 0
  MaxOut = 2
  MaxErr = 2
  MaxChunk = 1
  Limits <- L_none
  TLims <- T_012
  MaxCalls = 2
  MaxNow = 2
  ShortIO = FALSE
  DeadlineCheck = TRUE
  CloseBeforeSend = TRUE
  ClearOnErr = TRUE
INVARIANT NoViolation EnvOk
CONSTRAINT Bound
