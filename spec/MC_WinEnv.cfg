SPECIFICATION Spec
CONSTANTS
  RejectNul = TRUE
  Names <- N1
  Values <- V1
  MaxEntries = 3
INVARIANT Inv
