SPECIFICATION Spec
CONSTANTS
  Piped = {"out","err"}
  Cap = 2
  K = 1
  WriteSize = 1
  ReadBuf = 1
  InLen = 0
  MaxOut = 3
  MaxErr = 2
  MaxChunk = 2
  Limits <- L_123
  TLims <- T_none
  MaxCalls = 3
  MaxNow = 0
  PollMax = 2
  ShortIO = FALSE
  FixF6 = TRUE
  FixF7 = TRUE
INVARIANT NoViolation EnvOk
CONSTRAINT Bound
