------------------------------- MODULE CommWin -------------------------------
(***************************************************************************)
(* L2 of the communicate specification, second implementation: the        *)
(* thread-based RawCommunicator of src/communicate.rs (`#[cfg(windows)]    *)
(* mod raw`), which the properties C02-C04 anchor next to the poll()-based *)
(* one.  It is pure std (File, thread, mpsc) and runs unchanged on any     *)
(* platform; the harness extracts it from the current source text and runs *)
(* it on Linux pipes (commwin_replay).                                     *)
(*                                                                         *)
(* Processes:                                                              *)
(*   reader helper per captured stream  (read_and_transmit): blocking      *)
(*       read of up to ReadBuf units -> send (ident, Data) / EOF over a    *)
(*       RENDEZVOUS channel (sync_channel(0)); the File is dropped when    *)
(*       the thread ends                                                   *)
(*   writer helper (write_all of the whole input, blocking) -> send        *)
(*       (In, EOF) or (In, Err); the stdin File is owned by the closure    *)
(*   main thread: read(): leftover -> loop { recv / recv_timeout(deadline  *)
(*       - now) } with grow_result clipping to the size limit and parking  *)
(*       the excess in `leftover`                                          *)
(* all running against the kernel / child of CommEnv, whose monitors       *)
(* (viol) judge C01-C04 exactly as for the Unix implementation.            *)
(*                                                                         *)
(* Switches:                                                               *)
(*   DeadlineCheck   TRUE = the loop notes an expired deadline before it   *)
(*                   receives and returns TimedOut on the next iteration   *)
(*                   (repair, mirrors the Unix one); FALSE = the pinned    *)
(*                   code: recv_timeout hands over a waiting sender's      *)
(*                   message without looking at the deadline, so a child   *)
(*                   that writes continuously can keep the call past it    *)
(*   CloseBeforeSend TRUE = the writer drops stdin before it announces     *)
(*                   completion (repair); FALSE = pinned: stdin stays open *)
(*                   until the main thread has taken the message -- which  *)
(*                   it only does inside a read()                          *)
(*   ClearOnErr      TRUE = a helper that reported an error is removed     *)
(*                   from helper_set like one that reported EOF (repair);  *)
(*                   FALSE = pinned: it stays, and a later read() waits    *)
(*                   for a message nobody will send -- recv() on the       *)
(*                   disconnected channel panics (unwrap / unreachable!)   *)
(***************************************************************************)
EXTENDS CommEnv

CONSTANTS
  Piped, Cap, K, ReadBuf,
  InLen, MaxOut, MaxErr, MaxChunk,
  Limits, TLims, MaxCalls, MaxNow, ShortIO,
  DeadlineCheck, CloseBeforeSend, ClearOnErr

VARIABLES
  pcM,        \* main thread: "idle" | "leftover" | "loop" | "recv" | "ret_ok" | "ret_to" | "ret_err" | "dropped"
  hst,        \* [Streams -> "none" | "run" | "send" | "sent" | "closing" | "done"]
  hmsg,       \* [Streams -> message the helper holds / is sending]
  helperSet,  \* helper_set: helpers that have not announced their end
  leftover,   \* [s, ids] parked by grow_result, or NoLeft
  outvec, errvec,
  ncalls, hadTl, expiredSeen,
  rxAlive,    \* the receiver exists (the Communicator has not been dropped)
  recvAfter   \* messages the main thread has taken in this call although the deadline had already passed

lvars == <<pcM, hst, hmsg, helperSet, leftover, outvec, errvec, ncalls, hadTl, expiredSeen, rxAlive, recvAfter>>
vars == <<envvars, lvars>>

NoLeft == [s |-> "none", ids |-> <<>>]
NoMsg == [k |-> "none", ids |-> <<>>]
Ids(s, from, n) == [i \in 1..n |-> (CASE s = "in" -> 40000 [] s = "out" -> 0 [] s = "err" -> 20000) + from + i]
InputSeq == Ids("in", 0, InLen)
MsT(m) == <<0, m * 1000000>>
NowMs == now[2] \div 1000000

Init ==
  /\ EnvInit(Piped, Cap, K, ShortIO, InputSeq, FALSE)
  /\ pcM = "idle"
  /\ hst = [s \in Streams |-> IF s \in Piped THEN "run" ELSE "none"]
  /\ hmsg = [s \in Streams |-> NoMsg]
  /\ helperSet = Piped
  /\ leftover = NoLeft /\ outvec = <<>> /\ errvec = <<>>
  /\ ncalls = 0 /\ hadTl = FALSE /\ expiredSeen = FALSE /\ rxAlive = TRUE /\ recvAfter = 0

\* ---------------------------------------------------------------- environment moves (as in Comm.tla)
ChildOps ==
  {[op |-> "rd", n |-> n] : n \in 1..MaxChunk}
  \cup {[op |-> "wr", s |-> "out", ids |-> Ids("out", Len(written["out"]), n), total |-> n] :
          n \in 1..(IF "out" \in Piped /\ cOpen["out"] THEN Min(MaxChunk, MaxOut - Len(written["out"])) ELSE 0)}
  \cup {[op |-> "wr", s |-> "err", ids |-> Ids("err", Len(written["err"]), n), total |-> n] :
          n \in 1..(IF "err" \in Piped /\ cOpen["err"] THEN Min(MaxChunk, MaxErr - Len(written["err"])) ELSE 0)}
  \cup {[op |-> "close", s |-> s] : s \in {x \in Piped : cOpen[x]}}
  \cup {[op |-> "exit"]}

EnvNext ==
  \/ \E op \in ChildOps : ChildCommit(op)
  \/ cPend.op = "rd" /\ \E n \in 0..Min(cPend.n, Len(buf["in"])) : ChildRd(Prefix(buf["in"], n), n = 0)
  \/ cPend.op = "wr" /\ \E n \in 0..Len(cPend.ids) : ChildWr(cPend.s, Prefix(cPend.ids, n), n = Len(cPend.ids))
  \/ cPend.op = "wr" /\ ChildEpipe(cPend.s)
  \/ cPend.op = "close" /\ ChildClose(cPend.s)
  \/ ChildExit
  \/ NowMs < MaxNow /\ Tick(MsT(NowMs + 1))

\* ---------------------------------------------------------------- helper threads
HU == UNCHANGED <<pcM, helperSet, leftover, outvec, errvec, ncalls, hadTl, expiredSeen, rxAlive, recvAfter>>

\* read_and_transmit: one blocking read (it returns only with data or at end-of-file)
HRead(s) ==
  /\ s \in Outs /\ hst[s] = "run"
  /\ \E n \in 0..Min(ReadBuf, Len(buf[s])) :
       LET ids == Prefix(buf[s], n) IN
       /\ (n = 0) => (buf[s] = <<>> /\ ~cOpen[s])
       /\ PRead(s, ReadBuf, ids)
       /\ hmsg' = [hmsg EXCEPT ![s] = IF n = 0 THEN [k |-> "eof", ids |-> <<>>] ELSE [k |-> "data", ids |-> ids]]
  /\ hst' = [hst EXCEPT ![s] = "send"]
  /\ HU

\* write_all(&input_data): blocking writes of everything that is left; nothing at all for empty input
WriteRest == Drop(input, Len(inAcc) - pwDone)
HWrite ==
  /\ hst["in"] = "run"
  /\ IF input = <<>>
     THEN /\ hmsg' = [hmsg EXCEPT !["in"] = [k |-> "eof", ids |-> <<>>]]
          /\ hst' = [hst EXCEPT !["in"] = IF CloseBeforeSend THEN "closing" ELSE "send"]
          /\ UNCHANGED envvars
     ELSE LET chunk == WriteRest IN
          \/ /\ \E n \in 0..Len(chunk) : PWrite(chunk, n)
             /\ IF Len(inAcc') = Len(input)
                THEN /\ hmsg' = [hmsg EXCEPT !["in"] = [k |-> "eof", ids |-> <<>>]]
                     /\ hst' = [hst EXCEPT !["in"] = IF CloseBeforeSend THEN "closing" ELSE "send"]
                ELSE UNCHANGED <<hmsg, hst>>
          \/ /\ Len(chunk) > K /\ Free("in") > 0 /\ Free("in") < Len(chunk) - pwDone
             /\ PWpart(SubSeq(chunk, pwDone + 1, pwDone + Free("in")))
             /\ UNCHANGED <<hmsg, hst>>
          \/ /\ chunk # <<>> /\ PWriteEpipe
             /\ hmsg' = [hmsg EXCEPT !["in"] = [k |-> "err", ids |-> <<>>]]
             /\ hst' = [hst EXCEPT !["in"] = IF CloseBeforeSend THEN "closing" ELSE "send"]
  /\ HU

\* a send on a channel whose receiver is gone fails at once: the thread ends
HSendFails(s) ==
  /\ hst[s] = "send" /\ ~rxAlive
  /\ hst' = [hst EXCEPT ![s] = IF s = "in" /\ CloseBeforeSend THEN "done" ELSE "closing"]
  /\ hmsg' = [hmsg EXCEPT ![s] = NoMsg]
  /\ UNCHANGED envvars /\ HU

\* the main thread has taken the message: a reader goes on reading after Data, everything else ends the thread
HAfterSend(s) ==
  /\ hst[s] = "sent"
  /\ hst' = [hst EXCEPT ![s] = IF hmsg[s].k = "data" THEN "run"
                               ELSE IF s = "in" /\ CloseBeforeSend THEN "done" ELSE "closing"]
  /\ hmsg' = [hmsg EXCEPT ![s] = NoMsg]
  /\ UNCHANGED envvars /\ HU

\* the thread's File is dropped
HClose(s) ==
  /\ hst[s] = "closing"
  /\ PClose(s)
  /\ hst' = [hst EXCEPT ![s] = IF s = "in" /\ CloseBeforeSend THEN "send" ELSE "done"]
  /\ UNCHANGED hmsg /\ HU

HelperNext == \E s \in Streams : HRead(s) \/ HSendFails(s) \/ HAfterSend(s) \/ HClose(s)
              \/ HWrite

\* ---------------------------------------------------------------- main thread
Total == Len(outvec) + Len(errvec)
MU == UNCHANGED <<hst, hmsg, ncalls, rxAlive, recvAfter>>

MCall ==
  /\ pcM = "idle" /\ ncalls < MaxCalls
  /\ \E lim \in Limits, tl \in TLims :
       /\ lim < 0 => limit < 0
       /\ tl < 0 => ~hadTl
       /\ Call(lim, IF tl < 0 THEN NoTime ELSE MsT(tl))
       /\ hadTl' = (hadTl \/ tl >= 0)
  /\ pcM' = "leftover" /\ outvec' = <<>> /\ errvec' = <<>> /\ expiredSeen' = FALSE /\ recvAfter' = 0
  /\ UNCHANGED <<hst, hmsg, helperSet, leftover, ncalls, rxAlive>>

\* grow_result(ident, data): returns <<outvec', errvec', leftover', keep_going>>
Grow(s, data) ==
  IF limit >= 0 /\ Total >= limit THEN <<outvec, errvec, leftover, FALSE>>     \* (data is dropped: unreachable for limit >= 1)
  ELSE LET room == IF limit >= 0 THEN limit - Total ELSE Len(data)
           take == IF Len(data) > room THEN Prefix(data, room) ELSE data
           left == IF Len(data) > room THEN [s |-> s, ids |-> Drop(data, room)] ELSE leftover
           o2 == IF s = "out" THEN outvec \o take ELSE outvec
           e2 == IF s = "err" THEN errvec \o take ELSE errvec
       IN <<o2, e2, left, ~(limit >= 0 /\ Len(o2) + Len(e2) >= limit)>>

MLeftover ==
  /\ pcM = "leftover"
  /\ IF leftover = NoLeft THEN pcM' = "loop" /\ UNCHANGED <<outvec, errvec, leftover>>
     ELSE LET g == Grow(leftover.s, leftover.ids)        \* (leftover.take() first: the slot is empty while growing)
              g2 == IF g[3] = leftover THEN NoLeft ELSE g[3]
          IN /\ outvec' = g[1] /\ errvec' = g[2] /\ leftover' = g2
             /\ pcM' = IF g[4] THEN "loop" ELSE "ret_ok"
  /\ UNCHANGED <<envvars, helperSet, hadTl, expiredSeen>> /\ MU

MLoop ==
  /\ pcM = "loop"
  /\ IF helperSet = {} THEN pcM' = "ret_ok" /\ UNCHANGED expiredSeen
     ELSE IF DeadlineCheck /\ expiredSeen THEN pcM' = "ret_to" /\ UNCHANGED expiredSeen
     ELSE pcM' = "recv" /\ expiredSeen' = Expired
  /\ UNCHANGED <<envvars, helperSet, leftover, outvec, errvec, hadTl>> /\ MU

\* the rendezvous: a helper waiting in send() hands over its message
MRecv(s) ==
  /\ pcM = "recv" /\ hst[s] = "send" /\ rxAlive
  /\ hst' = [hst EXCEPT ![s] = "sent"]
  /\ LET m == hmsg[s] IN
     CASE m.k = "eof" -> /\ helperSet' = helperSet \ {s} /\ pcM' = "loop"
                         /\ UNCHANGED <<outvec, errvec, leftover>>
       [] m.k = "data" -> LET g == Grow(s, m.ids) IN
                          /\ outvec' = g[1] /\ errvec' = g[2] /\ leftover' = g[3]
                          /\ pcM' = IF g[4] THEN "loop" ELSE "ret_ok"
                          /\ UNCHANGED helperSet
       [] OTHER -> /\ pcM' = "ret_err" /\ UNCHANGED <<outvec, errvec, leftover>>
                   /\ helperSet' = IF ClearOnErr THEN helperSet \ {s} ELSE helperSet
  /\ recvAfter' = IF Expired THEN recvAfter + 1 ELSE recvAfter
  /\ UNCHANGED <<envvars, hmsg, ncalls, hadTl, expiredSeen, rxAlive>>

\* recv_timeout ran into the deadline with nobody sending
MTimeout ==
  /\ pcM = "recv" /\ Expired
  /\ pcM' = "ret_to"
  /\ UNCHANGED <<envvars, helperSet, leftover, outvec, errvec, hadTl, expiredSeen>> /\ MU

\* every helper thread has ended (all senders dropped) while helper_set is not empty: recv() fails and the code panics
MDisconnected ==
  /\ pcM = "recv" /\ \A s \in Streams : hst[s] \in {"none", "done"}
  /\ pcM' = "ret_panic"
  /\ UNCHANGED <<envvars, helperSet, leftover, outvec, errvec, hadTl, expiredSeen>> /\ MU

MRet ==
  /\ pcM \in {"ret_ok", "ret_to", "ret_err", "ret_panic"}
  /\ RetS(CASE pcM = "ret_ok" -> "ok" [] pcM = "ret_to" -> "timedout" [] pcM = "ret_panic" -> "panic" [] OTHER -> "oserr",
          "out" \in Piped, outvec, "err" \in Piped, errvec, TRUE, FALSE)   \* (the helpers read ahead: not strict)
  /\ pcM' = "idle" /\ ncalls' = ncalls + 1
  /\ UNCHANGED <<hst, hmsg, helperSet, leftover, outvec, errvec, hadTl, expiredSeen, rxAlive, recvAfter>>

\* the caller drops the Communicator (and with it the receiver)
MDrop ==
  /\ pcM = "idle"
  /\ pcM' = "dropped" /\ rxAlive' = FALSE
  /\ UNCHANGED <<envvars, hst, hmsg, helperSet, leftover, outvec, errvec, ncalls, hadTl, expiredSeen, recvAfter>>

MainNext == MCall \/ MLeftover \/ MLoop \/ (\E s \in Streams : MRecv(s)) \/ MTimeout \/ MDisconnected \/ MRet \/ MDrop
LibNext == MainNext \/ HelperNext

Finished == pcM = "dropped" /\ ~cAlive /\ \A s \in Streams : hst[s] \in {"none", "done"}
Done == Finished /\ UNCHANGED vars
Next == (EnvNext /\ UNCHANGED lvars) \/ LibNext \/ Done
Spec == Init /\ [][Next]_vars
FairSpec == Spec /\ WF_vars(LibNext) /\ WF_vars(EnvNext /\ UNCHANGED lvars)

\* ---------------------------------------------------------------- properties
\* CommEnv's "stdin still open with all input handed over when a call returns" is stated for a single thread;
\* with a writer thread the close may be a step away.  What must not happen is that the close WAITS for the
\* main thread: the writer holding stdin open, all input delivered, blocked in its rendezvous send.
\* (judged, like CommEnv's monitor, when a read() is about to return)
EofPromptWin == pcM \in {"ret_ok", "ret_to"} => ~(InputDoneButOpen /\ hst["in"] = "send")
\* CommEnv's C04_bounded counts the system calls issued after the deadline -- here those of the helper threads,
\* which do not hold up the main thread.  "t plus one bounded I/O step" for the main thread: it takes at most two
\* more messages once the deadline has passed.
BoundedAfterDeadline == recvAfter <= 2
NoViolation == (viol \ {"C02_in_eof_prompt", "C04_bounded"}) = {} /\ EofPromptWin /\ BoundedAfterDeadline
EnvOk == EnvConsistent
ChildGone == ~cAlive
Returned == pcM \in {"idle", "dropped"}
Termination == ChildGone ~> Returned
Bound == NowMs <= MaxNow

\* reachability witnesses (each must be VIOLATED in a sanity run)
W_Leftover == leftover = NoLeft
W_TimedOut == pcM # "ret_to"
W_TwoSenders == ~(hst["out"] = "send" /\ hst["err"] = "send")
=============================================================================
