------------------------------ MODULE CommTrace ------------------------------
(***************************************************************************)
(* Trace validation for C01-C04: a recorded execution of the real          *)
(* Communicator (NDJSON, one event per line, many exchanges separated by   *)
(* "reset" events) is replayed through the actions of CommEnv.  Every      *)
(* event must be explained by the action of the same name with the logged  *)
(* arguments and results (kernel semantics), and the property monitors of  *)
(* CommEnv are evaluated at every step.  At each "end" event the verdict   *)
(* of that exchange is printed as one RESULT line.                         *)
(***************************************************************************)
EXTENDS CommEnv, Json, IOUtils

Rec == ndJsonDeserialize(IOEnv.TRACE)

VARIABLES l, scn
tvars == <<envvars, l, scn>>

Ev == Rec[l]
IsEvent(e) == l <= Len(Rec) /\ Ev.e = e /\ l' = l + 1

SetOf(seq) == {seq[i] : i \in 1..Len(seq)}
TimeOf(p) == <<p[1], p[2]>>

TraceInit ==
  /\ l = 1 /\ scn = "none"
  /\ EnvInit({}, 1, 1, FALSE, <<>>, FALSE)

TReset ==
  /\ IsEvent("reset")
  /\ scn' = Ev.id
  /\ EnvReset(SetOf(Ev.piped), Ev.cap, Ev.k, Ev.short, Ev.input, Ev.flood)

TCall ==
  /\ IsEvent("call")
  /\ TimeOf(Ev.now) = now
  /\ Call(Ev.limit, IF Ev.tl[1] < 0 THEN NoTime ELSE TimeOf(Ev.tl))
  /\ UNCHANGED scn

TRet ==
  /\ IsEvent("ret")
  /\ TimeOf(Ev.now) = now
  /\ IF Ev.kind = "oom" THEN RetOom ELSE Ret(Ev.kind, Ev.ho, Ev.out, Ev.he, Ev.err, Ev.text_ok)
  /\ UNCHANGED scn

TCommit ==
  /\ IsEvent("c_commit")
  /\ ChildCommit(CASE Ev.op = "rd"    -> [op |-> "rd", n |-> Ev.n]
                   [] Ev.op = "wr"    -> [op |-> "wr", s |-> Ev.s, ids |-> Ev.ids, total |-> Len(Ev.ids)]
                   [] Ev.op = "close" -> [op |-> "close", s |-> Ev.s]
                   [] Ev.op = "sleep" -> [op |-> "sleep", until |-> TimeOf(Ev.until)]
                   [] Ev.op = "exit"  -> [op |-> "exit"])
  /\ UNCHANGED scn

TChildRd  == IsEvent("c_rd") /\ ChildRd(Ev.ids, Ev.eof) /\ UNCHANGED scn
TChildWr  == IsEvent("c_wr") /\ ChildWr(Ev.s, Ev.ids, Ev.done) /\ UNCHANGED scn
TChildEp  == IsEvent("c_epipe") /\ ChildEpipe(Ev.s) /\ UNCHANGED scn
TChildCl  == IsEvent("c_close") /\ ChildClose(Ev.s) /\ UNCHANGED scn
TChildEx  == IsEvent("c_exit") /\ ChildExit /\ UNCHANGED scn
TChildWk  == IsEvent("c_wake") /\ ChildWake /\ UNCHANGED scn
TTick     == IsEvent("tick") /\ Tick(TimeOf(Ev.now)) /\ UNCHANGED scn

TPoll ==
  /\ IsEvent("p_poll")
  /\ TimeOf(Ev.now) = now
  /\ PPoll(SetOf(Ev.fds), Ev.tmo, TimeOf(Ev.t0),
           [s \in SetOf(Ev.fds) |-> SetOf(Ev.rev[CHOOSE i \in 1..Len(Ev.fds) : Ev.fds[i] = s])],
           TimeOf(Ev.clk), Ev.fresh)
  /\ UNCHANGED scn

TBlock  == IsEvent("p_block") /\ PBlock /\ UNCHANGED scn
TRead   == IsEvent("p_read") /\ PRead(Ev.s, Ev.want, Ev.ids) /\ UNCHANGED scn
TWpart  == IsEvent("p_wpart") /\ PWpart(Ev.ids) /\ UNCHANGED scn
TWrite  == IsEvent("p_write") /\ (IF Ev.n < 0 THEN PWriteEpipe ELSE PWrite(Ev.ids, Ev.n)) /\ UNCHANGED scn
TEintr  == IsEvent("p_eintr") /\ (IF Ev.sys = "poll" THEN PPollEintr(Ev.tmo, TimeOf(Ev.clk), Ev.fresh) ELSE PEintr) /\ UNCHANGED scn
TIoWait == IsEvent("p_iowait") /\ PIoWait(TimeOf(Ev.since)) /\ UNCHANGED scn
TClose  == IsEvent("p_close") /\ PClose(Ev.s) /\ UNCHANGED scn
TStuck  == IsEvent("stuck") /\ Stuck(Ev.timer) /\ UNCHANGED scn
TRunaway == IsEvent("runaway") /\ Runaway /\ UNCHANGED scn
\* the library burnt CPU without issuing any system call (seen by the harness's CPU-time watchdog)
TCpuSpin == IsEvent("cpu_spin") /\ Runaway /\ UNCHANGED scn

\* events that carry no state change (notes of the harness)
TNote ==
  /\ l <= Len(Rec) /\ Ev.e \in {"note", "h_leftopen"} /\ l' = l + 1
  /\ UNCHANGED <<envvars, scn>>

TEnd ==
  /\ IsEvent("end")
  /\ LET san == sanity \cup V(EnvConsistent, "env_inconsistent") IN
     PrintT(<<"RESULT", scn, viol, san, Ev.unrep>>)
  /\ UNCHANGED <<envvars, scn>>

TraceNext ==
  \/ TReset \/ TCall \/ TRet \/ TCommit \/ TChildRd \/ TChildWr \/ TChildEp \/ TChildCl \/ TChildEx
  \/ TChildWk \/ TTick \/ TPoll \/ TBlock \/ TRead \/ TWpart \/ TWrite \/ TClose \/ TStuck \/ TRunaway
  \/ TCpuSpin \/ TIoWait \/ TEintr \/ TNote \/ TEnd

TraceSpec == TraceInit /\ [][TraceNext]_tvars

\* the kernel model must stay self-consistent along every observed execution
EnvOk == EnvConsistent

TraceAccepted ==
  LET d == TLCGet("stats").diameter IN
  IF d - 1 = Len(Rec) THEN PrintT(<<"ACCEPTED", Len(Rec)>>)
  ELSE /\ PrintT(<<"UNMATCHED", d, Rec[d]>>)
       /\ FALSE
=============================================================================
