------------------------------- MODULE MCSpawn -------------------------------
EXTENDS Spawn
One == {1}
Two == {1, 2}
ConfA == [t \in {1} |-> <<"pipe", "pipe", "none">>]
ConfB == [t \in {1, 2} |-> IF t = 1 THEN <<"pipe", "pipe", "none">> ELSE <<"none", "pipe", "none">>]
ConfC == [t \in {1, 2} |-> IF t = 1 THEN <<"pipe", "none", "pipe">> ELSE <<"pipe", "pipe", "pipe">>]
=============================================================================
