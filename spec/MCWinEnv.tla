------------------------------- MODULE MCWinEnv -------------------------------
EXTENDS WinEnv
N1 == {<<97>>, <<65>>, <<98>>, <<233>>, <<97, 98>>}          \* a A b e-acute ab
V1 == {<<>>, <<120>>, <<61>>, <<120, 0, 65, 61, 121>>}       \* "" x = x<NUL>A=y
N2 == {<<97>>, <<65>>, <<98>>, <<0>>}
V2 == {<<>>, <<120>>}
\* one initial state per request, so that a failing request is shown as the counterexample
VARIABLE env
Init == env \in Lists(MaxEntries)
Spec == Init /\ [][UNCHANGED env]_env
Inv == Faithful(env)
=============================================================================
