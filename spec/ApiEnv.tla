------------------------------- MODULE ApiEnv -------------------------------
(***************************************************************************)
(* L1 for the builder-level properties on the real kernel:                 *)
(*   pipelines (C13 wiring / composition / stderr / status, C14 partial    *)
(*   start failure, C08 and C18 for every stage) and handles being dropped *)
(*   (C12).  The state accumulates what was observed of one API call: the  *)
(*   library's pipe() calls (which pipes exist because of the library),    *)
(*   forks, the self-reports of the stages that started, the result, the   *)
(*   watchdog's wait-for evidence when the call hung, and what was left    *)
(*   behind.  The verdict is computed when the scenario ends.              *)
(***************************************************************************)
EXTENDS Naturals, Integers, Sequences, FiniteSets, TLC

VARIABLES
  cfg, kind,
  base, pre,     \* descriptor tables: harness baseline, right before the call
  libpipes,      \* inodes of pipes created by the library during the call
  nforks,
  stages,        \* Seq of stage reports [tag, fds (table), mask_empty, sigpipe_ignored]
  res,           \* result record of the call
  dog,           \* Seq of watchdog observations
  afterDrop,     \* Seq(<<pid, state>>) of the children right after a handle was dropped
  waitsAfterMark,\* waitpid calls issued after the harness marked "drop starts"
  marked,
  escaped,
  pheld,         \* parent's descriptor table right after Pipeline::popen() returned (<<>> when not observed)
  viol, sanity

avars == <<cfg, kind, base, pre, libpipes, nforks, stages, res, dog, afterDrop, waitsAfterMark, marked, escaped,
           pheld, viol, sanity>>

V(ok, name) == IF ok THEN {} ELSE {name}
SetOf(seq) == {seq[i] : i \in 1..Len(seq)}
Tab(seq) == [fd \in {seq[i][1] : i \in 1..Len(seq)} |->
               LET e == seq[CHOOSE i \in 1..Len(seq) : seq[i][1] = fd]
               IN [ino |-> e[2], acc |-> e[3], pos |-> e[4], cx |-> e[5]]]
NoRes == [ok |-> FALSE, errkind |-> "unset"]

AInit ==
  /\ cfg = [id |-> "none"] /\ kind = "none" /\ base = <<>> /\ pre = <<>> /\ libpipes = {} /\ nforks = 0
  /\ stages = <<>> /\ res = NoRes /\ dog = <<>> /\ afterDrop = <<>> /\ waitsAfterMark = 0 /\ marked = FALSE
  /\ escaped = FALSE /\ pheld = <<>> /\ viol = {} /\ sanity = {}

AReset(c, k, b) ==
  /\ cfg' = c /\ kind' = k /\ base' = Tab(b) /\ pre' = Tab(b) /\ libpipes' = {} /\ nforks' = 0
  /\ stages' = <<>> /\ res' = NoRes /\ dog' = <<>> /\ afterDrop' = <<>> /\ waitsAfterMark' = 0 /\ marked' = FALSE
  /\ escaped' = FALSE /\ pheld' = <<>> /\ viol' = {} /\ sanity' = {}

APre(t) == pre' = Tab(t) /\ UNCHANGED <<cfg, kind, base, libpipes, nforks, stages, res, dog, afterDrop,
                                         waitsAfterMark, marked, escaped, pheld, viol, sanity>>

ASys(p, n, a, c, ret, allocs) ==
  /\ libpipes' = IF n = "pipe" /\ ret = 0 THEN libpipes \cup {c} ELSE libpipes
  /\ nforks' = IF p = 0 /\ n = "fork" /\ ret > 0 THEN nforks + 1 ELSE nforks
  /\ marked' = (marked \/ n = "mark")
  /\ waitsAfterMark' = IF marked /\ p = 0 /\ n = "waitpid" THEN waitsAfterMark + 1 ELSE waitsAfterMark
  /\ escaped' = (escaped \/ n = "escape")
  /\ viol' = viol
       \cup V(p = 1 /\ n \in {"execve", "_exit", "escape"} => allocs = 0, "C17_no_alloc_between_fork_and_exec")
       \cup V(~(p = 0 /\ ((n = "close" /\ a <= 2))), "C05_parent_std_untouched")
  /\ UNCHANGED <<cfg, kind, base, pre, stages, res, dog, afterDrop, pheld, sanity>>

AStage(r) ==
  /\ stages' = Append(stages, [tag |-> r.tag, fds |-> Tab(r.fds), mask_empty |-> r.mask_empty,
                               sigpipe_ignored |-> r.sigpipe_ignored])
  /\ UNCHANGED <<cfg, kind, base, pre, libpipes, nforks, res, dog, afterDrop, waitsAfterMark, marked, escaped, pheld, viol,
                 sanity>>

AResult(r) == res' = r /\ UNCHANGED <<cfg, kind, base, pre, libpipes, nforks, stages, dog, afterDrop, waitsAfterMark,
                                       marked, escaped, pheld, viol, sanity>>
APHeld(have, t) == pheld' = (IF have THEN Tab(t) ELSE <<>>) /\ UNCHANGED <<cfg, kind, base, pre, libpipes, nforks, stages, res, dog,
                                       afterDrop, waitsAfterMark, marked, escaped, viol, sanity>>
AWatchdog(w) == dog' = Append(dog, w) /\ UNCHANGED <<cfg, kind, base, pre, libpipes, nforks, stages, res, afterDrop,
                                                       waitsAfterMark, marked, escaped, pheld, viol, sanity>>
AAfterDrop(ch) == afterDrop' = ch /\ UNCHANGED <<cfg, kind, base, pre, libpipes, nforks, stages, res, dog,
                                                   waitsAfterMark, marked, escaped, pheld, viol, sanity>>

\* ---------------------------------------------------------------- the watchdog's wait-for evidence
\* holder = <<pid, inodes held above fd 2, "read"|"write"|"other", inode blocked on, parent holds the peer end,
\*            somebody else holds the peer end, pids of the other children holding the peer end>>
\* A proven deadlock: the library waits (waitpid) for a child that can never move again -- it is blocked on a
\* pipe, and so is (transitively) every other child holding the other end of that pipe, down to a pipe whose
\* other end the library's own process holds while it waits.
RECURSIVE StuckFix(_, _)
StuckFix(S, w) ==
  LET H(p) == w.holders[CHOOSE i \in 1..Len(w.holders) : w.holders[i][1] = p]
      S2 == {p \in S : SetOf(H(p)[7]) \subseteq S /\ (H(p)[5] \/ H(p)[7] # <<>>)}
  IN IF S2 = S THEN S ELSE StuckFix(S2, w)
StuckSet(w) == StuckFix({w.holders[i][1] : i \in {j \in 1..Len(w.holders) : w.holders[j][3] \in {"read", "write"}}}, w)
\* The library may also be waiting in read() of a pipe or in poll() on several (parent_io = one <<inode, children
\* holding the other end, the library's own process holds the other end too>> per pipe it waits on): nothing can
\* ever arrive when, for every one of them, the other end is held only by children of the stuck set (or by the
\* library itself) -- and the stuck set is stuck on a pipe end the library holds.
ProvenDeadlock(w) ==
  LET S == StuckSet(w)
      ByParent == \E i \in 1..Len(w.holders) : w.holders[i][1] \in S /\ w.holders[i][5]
  IN
  \/ /\ \E c \in S : c \in SetOf(w.parent_waits)
     /\ ByParent
  \* or: the library waits for a child whose output pipe has lost every reader and which lives on only because
  \* SIGPIPE cannot reach it (holder[8]: blocked or ignored in the child; holder[9]: its stdout pipe has no reader)
  \/ \E i \in 1..Len(w.holders) : w.holders[i][1] \in SetOf(w.parent_waits) /\ w.holders[i][8] /\ w.holders[i][9]
  \/ /\ w.parent_io # <<>>
     /\ \A k \in 1..Len(w.parent_io) : /\ SetOf(w.parent_io[k][2]) \subseteq S
                                       /\ (w.parent_io[k][2] # <<>> \/ w.parent_io[k][3])
     /\ ByParent \/ \E k \in 1..Len(w.parent_io) : w.parent_io[k][3]
\* or: the library is blocked reading a pipe (the launch-status channel) that a child keeps open above fd 2
ProvenLeakHang(w) ==
  \E i \in 1..Len(w.holders) : SetOf(w.holders[i][2]) \cap libpipes # {}
Hung == dog # <<>>
\* or: the library was blocked reading a pipe whose writing end its own process still held
ProvenSelfDeadlock(w) == "self_deadlock" \in DOMAIN w /\ w.self_deadlock
HangExplained == \A i \in 1..Len(dog) : ProvenDeadlock(dog[i]) \/ ProvenLeakHang(dog[i]) \/ ProvenSelfDeadlock(dog[i])

\* ---------------------------------------------------------------- pipelines
N == cfg.n
FailAt == cfg.fail_at            \* 0-based index of the stage that cannot start, -1 = none
Tags == cfg.tags
StageOf(tag) == stages[CHOOSE i \in 1..Len(stages) : stages[i].tag = tag]
Reported(tag) == \E i \in 1..Len(stages) : stages[i].tag = tag
ExpectedTags == IF FailAt < 0 THEN SetOf(Tags) ELSE {Tags[i] : i \in 1..FailAt}
AllStarted == FailAt < 0 /\ \A i \in 1..N : Reported(Tags[i])

\* (a descriptor the command does not have at all reads as an object that is nobody's)
Fd(tag, fd) == IF fd \in DOMAIN StageOf(tag).fds THEN StageOf(tag).fds[fd] ELSE [ino |-> -1, acc |-> -1, pos |-> 0, cx |-> FALSE]
HasFd(tag, fd) == fd \in DOMAIN StageOf(tag).fds

\* stage i's stdout and stage i+1's stdin are the two ends of one pipe made by the library
Link(i) ==
  /\ HasFd(Tags[i], 1) /\ HasFd(Tags[i + 1], 0)
  /\ Fd(Tags[i], 1).ino = Fd(Tags[i + 1], 0).ino
  /\ Fd(Tags[i], 1).ino \in libpipes
  /\ Fd(Tags[i], 1).acc = 1 /\ Fd(Tags[i + 1], 0).acc = 0
LinkIno(i) == Fd(Tags[i], 1).ino
\* that pipe is used by nobody else: no other descriptor of any stage refers to it
Exclusive(i) ==
  \A j \in 1..N : \A fd \in DOMAIN StageOf(Tags[j]).fds :
    StageOf(Tags[j]).fds[fd].ino = LinkIno(i) => (j = i /\ fd = 1) \/ (j = i + 1 /\ fd = 0)

FirstStdinOk ==
  LET f == Fd(Tags[1], 0) IN
  CASE cfg.stdin = "inherit" -> 0 \in DOMAIN pre /\ f.ino = pre[0].ino
    [] cfg.stdin \in {"pipe", "data"} -> f.ino \in libpipes /\ f.acc = 0 /\ \A i \in 1..(N - 1) : f.ino # LinkIno(i)
    [] cfg.stdin = "file" -> f.ino \notin libpipes /\ f.acc = 0 /\ f.ino = res.in_ino
    [] OTHER -> TRUE
LastStdoutOk ==
  LET f == Fd(Tags[N], 1) IN
  CASE cfg.stdout = "inherit" -> 1 \in DOMAIN pre /\ f.ino = pre[1].ino
    [] cfg.stdout = "pipe" -> f.ino \in libpipes /\ f.acc = 1 /\ \A i \in 1..(N - 1) : f.ino # LinkIno(i)
    [] cfg.stdout = "file" -> f.ino \notin libpipes /\ f.ino = res.out_ino
    [] OTHER -> TRUE
\* the shared error sink: every stage's fd 2 is one and the same open file
StderrShared ==
  \A i \in 1..N : HasFd(Tags[i], 2) /\ Fd(Tags[i], 2).ino = Fd(Tags[1], 2).ino /\ Fd(Tags[i], 2).acc = Fd(Tags[1], 2).acc

Concat(seq) == IF seq = <<>> THEN "" ELSE
  LET F[i \in 0..Len(seq)] == IF i = 0 THEN "" ELSE F[i - 1] \o seq[i] IN F[Len(seq)]

\* Above fd 2 a stage holds no end of any pipe the library created -- not even a second copy of the pipe that is
\* its own stdout/stderr (it could not make the reader see end-of-file by closing its standard stream).
NoLeakStage(s) == \A fd \in DOMAIN s.fds : fd > 2 => s.fds[fd].ino \notin libpipes

PipelineVerdict(post, children) ==
  LET det == cfg.detached \/ cfg.term = "communicate"   \* communicate() hands out a Communicator and detaches the commands
      clean == {<<fd, post[fd].ino, post[fd].acc>> : fd \in DOMAIN post} = {<<fd, base[fd].ino, base[fd].acc>> : fd \in DOMAIN base}
      inputLines == IF cfg.stdin \in {"inherit", "null"} THEN 0 ELSE cfg.nlines
  IN
    V(~escaped, "C14_forked_child_escaped")
    \cup V(res.errkind # "panic", "C13_panic")
    \cup (IF res.errkind = "panic" THEN {"C14_panic", "C12_panic", "C08_panic", "C01_panic", "C02_panic", "C18_panic"} ELSE {})
    \* ---- C08 / C18 for every stage that started
    \cup V(\A i \in 1..Len(stages) : NoLeakStage(stages[i]), "C08_no_pipe_end_leaks")
    \* (C13's "and nothing else": a command holds no further copy of a connecting pipe or of the shared stderr sink)
    \cup V(\A i \in 1..Len(stages) : NoLeakStage(stages[i]), "C13_no_further_copies_of_the_pipeline_pipes")
    \cup V(\A i \in 1..Len(stages) : stages[i].mask_empty /\ ~stages[i].sigpipe_ignored, "C18_clean_signal_state_in_stage")
    \* ---- C14: a stage cannot be started
    \cup V(FailAt >= 0 => ~res.ok /\ res.errkind = "io" /\ res.errno = 2, "C14_error_returned")
    \cup V(FailAt >= 0 => {stages[i].tag : i \in 1..Len(stages)} = ExpectedTags /\ nforks = FailAt + 1, "C14_no_later_stage_started")
    \cup V(FailAt >= 0 => ~(Hung /\ HangExplained), "C14_returns_promptly")
    \cup V(FailAt >= 0 => ~(Hung /\ HangExplained), "C12_no_self_inflicted_hang")
    \cup V(FailAt >= 0 /\ cfg.term \in {"capture", "communicate"} => ~(Hung /\ HangExplained), "C01_capture_never_finishes")
    \cup V(FailAt >= 0 /\ ~det => children = "none", "C14_no_child_left_behind")
    \* (C12 says the same of every child a handle -- here the pipeline being started -- has started)
    \cup V(FailAt >= 0 /\ ~det => children = "none", "C12_children_of_failed_pipeline_reaped")
    \cup V(FailAt >= 0 => clean, "C14_no_descriptor_left_open")
    \* ---- C13: a pipeline that starts
    \cup V(FailAt < 0 => res.ok, "C13_starts")
    \cup V(FailAt < 0 => ~(Hung /\ HangExplained), "C12_no_self_inflicted_hang")
    \cup V(AllStarted => \A i \in 1..(N - 1) : Link(i), "C13_stage_i_feeds_stage_i_plus_1")
    \cup V(AllStarted /\ (\A i \in 1..(N - 1) : Link(i)) => \A i \in 1..(N - 1) : Exclusive(i), "C13_links_used_by_nobody_else")
    \cup V(AllStarted /\ (\A i \in 1..(N - 1) : Link(i)) =>
             \A i, j \in 1..(N - 1) : i # j => LinkIno(i) # LinkIno(j), "C13_links_used_by_nobody_else")
    \* ... not even by the parent: once the pipeline is started it holds no end of a connecting pipe
    \cup V(AllStarted /\ (\A i \in 1..(N - 1) : Link(i)) /\ pheld # <<>> =>
             \A i \in 1..(N - 1) : \A fd \in DOMAIN pheld : pheld[fd].ino # LinkIno(i), "C13_links_used_by_nobody_else")
    \* a pipeline that hangs although every pipe is where it belongs would be C12's business; one that hangs because
    \* of who holds its pipes is a wiring fault
    \cup V(FailAt < 0 => ~(Hung /\ HangExplained), "C13_pipeline_never_finishes")
    \* C01 names Exec/Pipeline::capture among the communicate-style exchanges that always finish
    \cup V(FailAt < 0 /\ cfg.term \in {"capture", "communicate"} => ~(Hung /\ HangExplained), "C01_capture_never_finishes")
    \cup V(AllStarted /\ (\A i \in 1..(N - 1) : Link(i)) => FirstStdinOk, "C13_input_reaches_first_stage_only")
    \cup V(AllStarted /\ (\A i \in 1..(N - 1) : Link(i)) => LastStdoutOk, "C13_output_from_last_stage_only")
    \cup V(AllStarted => StderrShared, "C13_shared_stderr")
    \* (streaming scenarios use generator / copier programs: only wiring, termination and clean-up are judged there)
    \cup V(FailAt < 0 /\ res.ok /\ res.has_out /\ ~cfg.stream =>
             res.out.regular /\ res.out.count = inputLines /\ (inputLines > 0 => res.out.first = 1 /\ res.out.suffix = Concat(Tags)),
           "C13_output_is_composition_in_order")
    \* C02 says of capture()/communicate() what C13 says of every terminator: the child receives exactly the supplied
    \* input, once and in order, followed by end-of-file, and what is returned is what the (last) command wrote
    \cup V(cfg.term \in {"capture", "communicate"} /\ cfg.stdin = "data" /\ AllStarted /\ (\A i \in 1..(N - 1) : Link(i)) =>
             FirstStdinOk, "C02_capture_input_delivered")
    \cup V(cfg.term \in {"capture", "communicate"} /\ FailAt < 0 /\ res.ok /\ res.has_out /\ ~cfg.stream =>
             res.out.regular /\ res.out.count = inputLines /\ (inputLines > 0 => res.out.first = 1 /\ res.out.suffix = Concat(Tags)),
           "C02_capture_output_verbatim")
    \cup V(FailAt < 0 /\ res.ok /\ res.has_err /\ cfg.stderr \in {"file", "capture"} /\ ~cfg.stream =>
             SetOf(res.err_lines) = SetOf(cfg.elines) /\ Len(res.err_lines) = N, "C13_no_stderr_line_lost")
    \cup V(FailAt < 0 /\ res.ok /\ res.has_status /\ cfg.term \in {"join", "capture", "popen"} /\ ~cfg.stream =>
             res.status = [k |-> "exited", v |-> cfg.codes[N]], "C13_status_of_last_stage")
    \cup V(FailAt < 0 /\ res.ok /\ ~det /\ cfg.term \in {"join", "capture", "popen", "stream_stdout", "stream_stdin"} =>
             children = "none", "C13_all_stages_exited_and_reaped")
    \cup V(FailAt < 0 /\ res.ok /\ ~det => children = "none", "C12_reaped")
    \cup V(FailAt < 0 => clean, "C13_no_descriptor_left_open")

\* ---------------------------------------------------------------- handles (C12)
HandleVerdict(post, children) ==
  LET det == cfg.detached IN
    V(~(Hung /\ HangExplained), "C12_no_self_inflicted_hang")
    \* C01 names Exec/Pipeline::capture among the exchanges that always finish
    \cup V(cfg.handle \in {"capture", "capture_data", "pl_capture", "pl_capture_data"} => ~(Hung /\ HangExplained),
           "C01_capture_never_finishes")
    \cup V(~det => children = "none" /\ \A i \in 1..Len(afterDrop) : afterDrop[i][2] = "gone", "C12_reaped")
    \cup V(det => waitsAfterMark = 0 /\ \A i \in 1..Len(afterDrop) : afterDrop[i][2] # "gone", "C12_detached_never_reaps")
    \cup V(res.ok \/ cfg.may_fail, "C12_handle_call_failed")

\* ---------------------------------------------------------------- two threads launching at the same time (C08)
RaceVerdict(post, children) ==
    V(\A i \in 1..Len(stages) : NoLeakStage(stages[i]), "C08_no_pipe_end_leaks")
    \cup V(~(Hung /\ HangExplained), "C08_eof_not_propagated")
    \cup V(res.ok /\ Len(stages) = 2, "C08_launch_failed")
    \cup V(children = "none", "C12_reaped")

\* two threads launching in tight loops: every child, whichever thread started it and whatever the other thread was doing
\* at that moment, starts with a clean signal state; all are reaped
StressVerdict(post, children) ==
    V(\A i \in 1..Len(stages) : stages[i].mask_empty /\ ~stages[i].sigpipe_ignored, "C18_clean_signal_state_in_stage")
    \cup V(res.ok, "C18_launch_failed_under_stress")
    \cup V(children = "none", "C12_reaped")

\* capture() of pipelines beside a thread that keeps starting unrelated, longer-living programs (they live 1.5 s): a
\* capture returns when its own commands are gone -- none took as long as a bystander lives
CapStressVerdict(post, children) ==
    V(res.max_us < 1000000, "C01_capture_never_finishes")
    \cup V(res.max_us < 1000000, "C08_eof_not_propagated")
    \cup V(res.ok, "C13_starts")
    \cup V(children = "none", "C12_reaped")

Verdict(post, children) ==
  CASE kind = "pipeline" -> PipelineVerdict(Tab(post), children)
    [] kind = "stress" -> StressVerdict(Tab(post), children)
    [] kind = "capstress" -> CapStressVerdict(Tab(post), children)
    [] kind = "race" -> RaceVerdict(Tab(post), children)
    [] OTHER -> HandleVerdict(Tab(post), children)
Sanity == IF Hung /\ ~HangExplained THEN {"watchdog_without_explanation"} ELSE {}
=============================================================================
