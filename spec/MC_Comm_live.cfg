SPECIFICATION FairSpec
CONSTANTS
  Piped = {"in","out"}
  Cap = 1
  K = 1
  WriteSize = 1
  ReadBuf = 1
  InLen = 3
  MaxOut = 3
  MaxErr = 0
  MaxChunk = 2
  Limits <- L_none
  TLims <- T_none
  MaxCalls = 1
  MaxNow = 0
  PollMax = 2
  ShortIO = FALSE
  FixF6 = TRUE
  FixF7 = TRUE
PROPERTY Termination
