SPECIFICATION Spec
CONSTANTS
  MaxLen = 5
  MaxArgs = 2
INVARIANT Faithful
