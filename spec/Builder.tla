------------------------------- MODULE Builder -------------------------------
(***************************************************************************)
(* C16.  The Exec builder as edits on a plain command description.         *)
(*                                                                         *)
(* L1 (Step1 / Term1): the straightforward model a user has in mind --     *)
(*   arguments accumulate in order; the environment is a mapping that      *)
(*   starts as the parent's (or empty after env_clear) and is edited in    *)
(*   order (last value set wins, removed names are absent unless set       *)
(*   again); a stream can be configured once -- a second DIFFERENT setting *)
(*   must be refused (an identical repetition is a don't-care, except      *)
(*   Pipe/Pipe which is accepted); input data given to a terminator that   *)
(*   cannot deliver it must be refused.                                    *)
(* L2 (Step2 / Term2): the representation in src/builder.rs --             *)
(*   Option<Vec<(k, v)>> snapshotted by ensure_env on the first edit,      *)
(*   push / retain / Some([]), later de-duplicated by format_env           *)
(*   (later wins); the set-once match tables of stdin/stdout/stderr;       *)
(*   check_no_stdin_data in the terminators.                               *)
(* TLC checks that for every call sequence L2 behaves as L1 allows.        *)
(* Trace validation evaluates L1 on the recorded call sequence and         *)
(* compares with what the real builder did and what the child reported.    *)
(***************************************************************************)
EXTENDS Naturals, Integers, Sequences, FiniteSets, TLC

\* ---------------------------------------------------------------- helpers
SetOf(seq) == {seq[i] : i \in 1..Len(seq)}
Keys(m) == {p[1] : p \in m}
MSet(m, k, v) == {p \in m : p[1] # k} \cup {<<k, v>>}
MDel(m, k) == {p \in m : p[1] # k}
RECURSIVE MSetAll(_, _)
MSetAll(m, kvs) == IF kvs = <<>> THEN m ELSE MSetAll(MSet(m, kvs[1][1], kvs[1][2]), Tail(kvs))

\* ---------------------------------------------------------------- L1
Init1(parent) ==
  [args |-> <<>>, touched |-> FALSE, env |-> parent, cwd |-> "", sin |-> "unset", sout |-> "unset", serr |-> "unset",
   data |-> FALSE, det |-> FALSE]

\* verdict of a stream setting: "acc" | "may" | "must" (must be refused)
StreamVerdict(cur, kind, isStdin) ==
  IF isStdin /\ kind = "merge" THEN "must"
  ELSE IF cur = "unset" THEN "acc"
  ELSE IF cur = kind /\ kind = "pipe" THEN "acc"
  ELSE IF cur = kind THEN "may"
  ELSE IF isStdin /\ cur = "data" /\ kind = "pipe" THEN "may"   \* data is fed through a pipe: nothing is overridden or dropped
  ELSE "must"
KindOf(k) == IF k \notin {"pipe", "null", "file", "merge"} THEN "data" ELSE k

Verdict1(st, op) ==
  CASE op[1] = "stdin"  -> StreamVerdict(st.sin, KindOf(op[2]), TRUE)
    [] op[1] = "stdout" -> StreamVerdict(st.sout, op[2], FALSE)
    [] op[1] = "stderr" -> StreamVerdict(st.serr, op[2], FALSE)
    [] OTHER -> "acc"

Step1(st, op) ==
  CASE op[1] = "arg"        -> [st EXCEPT !.args = Append(@, op[2])]
    [] op[1] = "args"       -> [st EXCEPT !.args = @ \o op[2]]
    [] op[1] = "env"        -> [st EXCEPT !.env = MSet(@, op[2], op[3]), !.touched = TRUE]
    [] op[1] = "env_extend" -> [st EXCEPT !.env = MSetAll(@, op[2]), !.touched = TRUE]
    [] op[1] = "env_remove" -> [st EXCEPT !.env = MDel(@, op[2]), !.touched = TRUE]
    [] op[1] = "env_clear"  -> [st EXCEPT !.env = {}, !.touched = TRUE]
    [] op[1] = "cwd"        -> [st EXCEPT !.cwd = op[2]]
    [] op[1] = "stdin"      -> [st EXCEPT !.sin = IF @ = "unset" THEN KindOf(op[2]) ELSE @,
                                          !.data = (@ \/ (st.sin = "unset" /\ KindOf(op[2]) = "data"))]
    [] op[1] = "stdout"     -> [st EXCEPT !.sout = IF @ = "unset" THEN op[2] ELSE @]
    [] op[1] = "stderr"     -> [st EXCEPT !.serr = IF @ = "unset" THEN op[2] ELSE @]
    [] op[1] = "detached"   -> [st EXCEPT !.det = TRUE]
    \* (not a builder call: the process environment changes while the command is put together.  Before the first
    \* environment edit the command still inherits: the change is part of what it inherits.  Afterwards the scenarios only
    \* touch names the builder has edited, so that the moment the copy is taken does not matter.)
    [] op[1] = "setenv_proc" -> IF st.touched THEN st ELSE [st EXCEPT !.env = MSet(@, op[2], op[3])]
    [] OTHER                -> st     \* "clone": an independent equivalent command

\* verdict of a terminator
Term1(st, term) ==
  IF st.data /\ term \in {"popen", "join", "stream_stdout", "stream_stderr", "stream_stdin"} THEN "must"
  ELSE CASE term = "stream_stdout" -> StreamVerdict(st.sout, "pipe", FALSE)
         [] term = "stream_stderr" -> StreamVerdict(st.serr, "pipe", FALSE)
         [] term = "stream_stdin"  -> StreamVerdict(st.sin, "pipe", FALSE)
         \* capture / communicate on a piped stdin for which no data was given: documented to panic; a don't-care here
         [] term \in {"capture", "communicate"} /\ st.sin = "pipe" /\ ~st.data -> "may"
         [] OTHER -> "acc"

\* evaluate a whole call sequence: the state after ops[1..n] and the verdict of each call
RECURSIVE Run1(_, _, _)
Run1(st, ops, n) == IF n = 0 THEN st ELSE Step1(Run1(st, ops, n - 1), ops[n])
Verdicts1(parent, ops) == [i \in 1..Len(ops) |-> Verdict1(Run1(Init1(parent), ops, i - 1), ops[i])]

\* what the real builder may do with this sequence: r = index (1-based) of the call it refused, 0 = none
RefusalAllowed(vs, r) ==
  /\ \A i \in 1..Len(vs) : (r = 0 \/ i < r) => vs[i] # "must"     \* nothing that must be refused was accepted
  /\ r # 0 => vs[r] \in {"may", "must"}                           \* and nothing was refused without reason

\* ---------------------------------------------------------------- L2 (the code's representation)
Init2 == [args |-> <<>>, envv |-> <<"none">>, cwd |-> "", sin |-> "none", sout |-> "none", serr |-> "none",
          data |-> FALSE, det |-> FALSE, panicked |-> FALSE]
\* envv: <<"none">> or <<"some", Seq(<<k, v>>)>>
Ensure(st, parentSeq) == IF st.envv[1] = "none" THEN <<"some", parentSeq>> ELSE st.envv
Filter(seq, k) == SelectSeq(seq, LAMBDA p : p[1] # k)

SetOnce2(cur, kind) ==       \* the match tables of Exec::stdout / stderr: new value, or "PANIC"
  IF cur = "none" THEN kind ELSE IF cur = "pipe" /\ kind = "pipe" THEN "pipe" ELSE "PANIC"

Step2(st, op, parentSeq) ==
  IF st.panicked THEN st ELSE
  CASE op[1] = "arg"        -> [st EXCEPT !.args = Append(@, op[2])]
    [] op[1] = "args"       -> [st EXCEPT !.args = @ \o op[2]]
    [] op[1] = "env"        -> [st EXCEPT !.envv = <<"some", Append(Ensure(st, parentSeq)[2], <<op[2], op[3]>>)>>]
    [] op[1] = "env_extend" -> [st EXCEPT !.envv = <<"some", Ensure(st, parentSeq)[2] \o op[2]>>]
    [] op[1] = "env_remove" -> [st EXCEPT !.envv = <<"some", Filter(Ensure(st, parentSeq)[2], op[2])>>]
    [] op[1] = "env_clear"  -> [st EXCEPT !.envv = <<"some", <<>>>>]
    [] op[1] = "cwd"        -> [st EXCEPT !.cwd = op[2]]
    [] op[1] = "stdin"      ->
         LET k == KindOf(op[2]) IN
         IF k = "merge" THEN [st EXCEPT !.panicked = TRUE]                 \* From<Redirection> panics
         ELSE IF st.sin = "none" /\ k = "data" THEN [st EXCEPT !.sin = "pipe", !.data = TRUE]
         ELSE IF st.sin = "none" THEN [st EXCEPT !.sin = k]
         ELSE IF st.sin = "pipe" /\ k = "pipe" THEN st
         ELSE [st EXCEPT !.panicked = TRUE]
    [] op[1] = "stdout"     -> IF SetOnce2(st.sout, op[2]) = "PANIC" THEN [st EXCEPT !.panicked = TRUE]
                               ELSE [st EXCEPT !.sout = SetOnce2(st.sout, op[2])]
    [] op[1] = "stderr"     -> IF SetOnce2(st.serr, op[2]) = "PANIC" THEN [st EXCEPT !.panicked = TRUE]
                               ELSE [st EXCEPT !.serr = SetOnce2(st.serr, op[2])]
    [] op[1] = "detached"   -> [st EXCEPT !.det = TRUE]
    [] OTHER                -> st

\* format_env: later entries win, as a mapping
RECURSIVE AsMap(_)
AsMap(seq) == IF seq = <<>> THEN {} ELSE MSet(AsMap(SubSeq(seq, 1, Len(seq) - 1)), seq[Len(seq)][1], seq[Len(seq)][2])
Env2(st, parentSeq) == IF st.envv[1] = "none" THEN AsMap(parentSeq) ELSE AsMap(st.envv[2])

Term2Panics(st, term) ==
  \/ st.data /\ term \in {"popen", "join", "stream_stdout", "stream_stderr", "stream_stdin"}
  \/ term = "stream_stdout" /\ SetOnce2(st.sout, "pipe") = "PANIC"
  \/ term = "stream_stderr" /\ SetOnce2(st.serr, "pipe") = "PANIC"
  \/ term = "stream_stdin" /\ ~(st.sin \in {"none", "pipe"})
  \/ term \in {"capture", "communicate"} /\ st.sin = "pipe" /\ ~st.data
=============================================================================
