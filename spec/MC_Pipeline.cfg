SPECIFICATION Spec
CONSTANTS
  MaxN = 6
  MoveNotClone = TRUE
INVARIANT NoViolation
CHECK_DEADLOCK FALSE
