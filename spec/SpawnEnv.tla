------------------------------ MODULE SpawnEnv ------------------------------
(***************************************************************************)
(* L1 of the launch specification (C05, C06, C07, C08, C15, C17, C18):     *)
(* descriptor tables of the parent and of the forked child (fd -> open     *)
(* file description + close-on-exec flag) evolving under the system calls  *)
(* the library issues (pipe, fcntl, dup2, close, fork, exec ...), the      *)
(* launch configuration, the result of Popen::create, the child's own      *)
(* report, and the property monitors over that vocabulary.                 *)
(*                                                                         *)
(* An open file description is identified by <<inode, access mode,         *)
(* offset>> (the harness opens every file it passes at a unique offset;    *)
(* the two ends of a pipe share the inode and differ in access mode).      *)
(***************************************************************************)
EXTENDS Naturals, Integers, Sequences, FiniteSets, TLC

VARIABLES
  cfg,        \* launch configuration (record)
  base,       \* descriptor table of the harness before anything was spawned
  pre,        \* parent table right before the current Popen::create
  ptab,       \* parent table, updated by every parent-side system call
  ctab,       \* child table (copied at fork), updated by child-side calls
  forked, nforks,
  execd,      \* table the new program image starts with (non-cloexec part of ctab at a successful exec); <<>> before
  didExec,
  attempts,   \* Seq(<<path, errno>>): failed exec attempts, in order
  libpipes,   \* inodes of the pipes the library created in this scenario
  maxAllocs,  \* max heap allocations observed in a forked child before exec/_exit
  res,        \* result of Popen::create (record) or NoRes
  reported,   \* the child reported in (its program image really started)
  penv, pcwd, \* parent's environment (set of hex strings) and cwd
  pass,       \* Seq(<<fd, stream index>>): the files handed to this launch as redirections
  parentStdTouched,
  viol, sanity

svars == <<cfg, base, pre, ptab, ctab, forked, nforks, execd, didExec, attempts, libpipes, maxAllocs, res,
           reported, penv, pcwd, pass, parentStdTouched, viol, sanity>>

NoRes == [ok |-> FALSE, errkind |-> "unset"]
V(ok, name) == IF ok THEN {} ELSE {name}
SetOf(seq) == {seq[i] : i \in 1..Len(seq)}

\* table = function fd -> [ino, acc, pos, cx];  a logged table is a sequence of <<fd, ino, acc, pos, cx>>
Tab(seq) == [fd \in {seq[i][1] : i \in 1..Len(seq)} |->
               LET e == seq[CHOOSE i \in 1..Len(seq) : seq[i][1] = fd]
               IN [ino |-> e[2], acc |-> e[3], pos |-> e[4], cx |-> e[5]]]
Obj(t, fd) == <<t[fd].ino, t[fd].acc, t[fd].pos>>
Without(t, fd) == [x \in DOMAIN t \ {fd} |-> t[x]]
With(t, fd, e) == [x \in DOMAIN t \cup {fd} |-> IF x = fd THEN e ELSE t[x]]
Inheritable(t) == [x \in {y \in DOMAIN t : ~t[y].cx} |-> t[x]]
\* comparable view of a table (ignores the close-on-exec flag)
View(t) == {<<fd, t[fd].ino, t[fd].acc, t[fd].pos>> : fd \in DOMAIN t}

SInit ==
  /\ cfg = [id |-> "none"] /\ base = <<>> /\ pre = <<>> /\ ptab = <<>> /\ ctab = <<>>
  /\ forked = FALSE /\ nforks = 0 /\ execd = <<>> /\ didExec = FALSE /\ attempts = <<>> /\ libpipes = {}
  /\ maxAllocs = 0 /\ res = NoRes /\ reported = FALSE /\ penv = {} /\ pcwd = "" /\ pass = <<>> /\ parentStdTouched = FALSE
  /\ viol = {} /\ sanity = {}

SReset(c, b) ==
  /\ cfg' = c /\ base' = Tab(b) /\ pre' = Tab(b) /\ ptab' = Tab(b) /\ ctab' = <<>>
  /\ forked' = FALSE /\ nforks' = 0 /\ execd' = <<>> /\ didExec' = FALSE /\ attempts' = <<>> /\ libpipes' = {}
  /\ maxAllocs' = 0 /\ res' = NoRes /\ reported' = FALSE /\ penv' = {} /\ pcwd' = "" /\ pass' = <<>> /\ parentStdTouched' = FALSE
  /\ viol' = {} /\ sanity' = {}

\* right before Popen::create: the harness's view of its own table (it may have opened the files it passes)
SPre(t, env, cwd, ps) ==
  /\ pre' = Tab(t) /\ ptab' = Tab(t) /\ ctab' = <<>> /\ forked' = FALSE /\ execd' = <<>> /\ didExec' = FALSE
  /\ attempts' = <<>> /\ res' = NoRes /\ reported' = FALSE /\ penv' = env /\ pcwd' = cwd /\ pass' = ps
  /\ UNCHANGED <<cfg, base, nforks, libpipes, maxAllocs, parentStdTouched, viol, sanity>>

\* the parent's OWN standard stream fd (0-2) -- the object that was there when the scenario began -- is closed or
\* overwritten by the library in the parent.  (With a standard descriptor closed beforehand, the number may be taken
\* by a pipe end of the library or by a file the caller passed in: closing those is the library's business.)
TouchesParentStd(p, n, a, b) ==
  LET fd == IF n = "close" THEN a ELSE b IN
  /\ p = 0 /\ n \in {"close", "dup2"} /\ fd <= 2 /\ fd >= 0
  /\ fd \in DOMAIN base /\ fd \in DOMAIN ptab
  /\ ptab[fd].ino = base[fd].ino /\ ptab[fd].acc = base[fd].acc

\* ---------------------------------------------------------------- system calls (kernel semantics)
F_GETFD == 1
F_SETFD == 2

\* one logged system call: p = 0 parent / 1 forked child
Sys(p, n, a, b, c, ret, errno, s, allocs) ==
  LET t == IF p = 0 THEN ptab ELSE ctab
      t2 ==
        CASE n = "pipe" /\ ret = 0 ->
               With(With(t, a, [ino |-> c, acc |-> 0, pos |-> 0, cx |-> (s = "cx")]),      \* "cx": pipe2(O_CLOEXEC)
                    b, [ino |-> c, acc |-> 1, pos |-> 0, cx |-> (s = "cx")])
          [] n = "fcntl" /\ b = F_SETFD /\ ret = 0 /\ a \in DOMAIN t ->
               [t EXCEPT ![a].cx = (c % 2 = 1)]
          [] n = "fcntl" /\ b \in {0, 1030} /\ ret >= 0 /\ a \in DOMAIN t ->          \* F_DUPFD / F_DUPFD_CLOEXEC
               With(t, ret, [t[a] EXCEPT !.cx = (b = 1030)])
          [] n = "close" /\ ret = 0 -> Without(t, a)
          [] n = "dup2" /\ ret >= 0 /\ a # b /\ a \in DOMAIN t ->
               With(t, b, [t[a] EXCEPT !.cx = FALSE])
          [] OTHER -> t
      ok ==
        CASE n = "fcntl" /\ b = F_GETFD /\ ret >= 0 -> a \in DOMAIN t /\ (ret % 2 = 1) = t[a].cx
          [] n = "close" /\ ret = 0 /\ p = 0 -> a \in DOMAIN t   \* (a panicking child opens files the log does not see)
          [] n = "pipe" /\ ret = 0 -> a \notin DOMAIN t /\ b \notin DOMAIN t
          [] OTHER -> TRUE
  IN
  /\ sanity' = sanity \cup V(ok, "fd_model_mismatch")
  /\ IF p = 0 THEN ptab' = t2 /\ (IF n = "fork" /\ ret > 0 THEN ctab' = t2 ELSE ctab' = ctab)
     ELSE ctab' = t2 /\ ptab' = ptab
  /\ forked' = (forked \/ (p = 0 /\ n = "fork" /\ ret > 0))
  /\ nforks' = IF p = 0 /\ n = "fork" /\ ret > 0 THEN nforks + 1 ELSE nforks
  /\ libpipes' = IF n = "pipe" /\ ret = 0 THEN libpipes \cup {c} ELSE libpipes
  /\ IF p = 1 /\ n = "execve" /\ ret = 0
     THEN execd' = Inheritable(ctab) /\ didExec' = TRUE /\ attempts' = attempts
     ELSE /\ execd' = execd /\ didExec' = didExec
          /\ attempts' = IF p = 1 /\ n = "execve" THEN Append(attempts, <<s, errno>>) ELSE attempts
  /\ maxAllocs' = IF p = 1 /\ allocs > maxAllocs THEN allocs ELSE maxAllocs
  /\ parentStdTouched' = (parentStdTouched \/ TouchesParentStd(p, n, a, b))
  /\ viol' = viol
       \cup V(p = 1 /\ n \in {"execve", "_exit", "escape"} => allocs = 0, "C17_no_alloc_between_fork_and_exec")
       \* the forked child must exec or _exit; coming back out of the library (e.g. by a panic that
       \* unwinds) makes it run on as a copy of the parent
       \cup V(n # "escape", "C07_forked_child_escaped")
       \cup V(n # "escape", "C15_forked_child_escaped")
       \cup V(~TouchesParentStd(p, n, a, b), "C05_parent_std_untouched")
  /\ UNCHANGED <<cfg, base, pre, res, reported, penv, pcwd, pass>>

\* ---------------------------------------------------------------- result of Popen::create
StreamCfg(i) == CASE i = 0 -> cfg.stdin [] i = 1 -> cfg.stdout [] OTHER -> cfg.stderr
Invalid == cfg.stdin = "merge" \/ (cfg.stdout = "merge" /\ cfg.stderr = "merge")
\* injected failures of the parent's read of the launch-status channel
StatusReadInterrupted == cfg.has_fault /\ cfg.fault_kind = "read" /\ cfg.fault_errno = 4
StatusUnreadable == cfg.has_fault /\ cfg.fault_kind = "read" /\ cfg.fault_errno # 4

\* C15: index of the first PATH entry (non-empty) under which the command can be started; 0 if none
FirstStartable ==
  LET pe == cfg.path_entries
      idx == {i \in 1..Len(pe) : pe[i][2] = "ok" /\ pe[i][1] # ""}
  IN IF idx = {} THEN 0 ELSE CHOOSE i \in idx : \A j \in idx : i <= j
PathExpected == IF FirstStartable = 0 THEN "" ELSE cfg.path_entries[FirstStartable][1] \o "2f" \o cfg.cmd

Result(r) ==
  /\ res' = r
  /\ viol' = viol
       \* C05: handles iff piped; invalid combinations are logic errors without a process
       \cup V(r.ok => \A i \in 0..2 : r.has[i + 1] = (StreamCfg(i) = "pipe"), "C05_handle_iff_piped")
       \cup V(Invalid => ~r.ok /\ r.errkind = "logic" /\ ~forked, "C05_invalid_refused")
       \cup V(r.errkind # "panic", "C07_panic")
       \* (a launch that panics breaks whatever the scenario was about)
       \cup (IF r.errkind = "panic" THEN {"C05_panic", "C06_panic", "C08_panic", "C15_panic", "C17_panic", "C18_panic"} ELSE {})
       \* a launch that has every reason to succeed must succeed (otherwise nothing below is observed)
       \cup (IF cfg.expect_start /\ ~cfg.has_fault /\ ~Invalid /\ ~cfg.nul /\ ~cfg.has_path /\ ~r.ok
             THEN {"C05_unexpected_launch_failure", "C06_unexpected_launch_failure", "C08_unexpected_launch_failure",
                   "C17_unexpected_launch_failure", "C18_unexpected_launch_failure", "C15_unexpected_launch_failure"}
             ELSE {})
       \* C06: NUL anywhere => error and nothing started
       \cup V(cfg.nul => ~r.ok /\ ~forked, "C06_nul_rejected")
       \* C07: a handle iff the image started; errors carry the errno of the failing step
       \cup V(r.ok => didExec, "C07_ok_only_if_started")
       \* (when the parent's read of the launch-status channel fails for good it cannot know; when a signal handler merely
       \* interrupted it -- EINTR = 4 -- it can, by reading again)
       \cup V(~r.ok /\ ~Invalid /\ ~cfg.nul /\ ~StatusUnreadable => ~didExec, "C07_err_only_if_not_started")
       \cup V(cfg.has_fault /\ ~Invalid /\ ~cfg.nul /\ ~r.ok /\ r.errkind = "io" => r.errno = cfg.fault_errno, "C07_errno_of_failing_step")
       \* (a fault planned for a call the attempt never got to make -- the n-th fcntl of a launch that needs fewer -- is no fault)
       \cup V(cfg.has_fault /\ r.fault_fired /\ ~Invalid /\ ~cfg.nul /\ cfg.fault_kind # "close" /\ ~StatusReadInterrupted => ~r.ok, "C07_failure_reported")
       \* C18: when the child's signal state cannot be reset the program must not be started with the inherited one
       \cup V(cfg.has_fault /\ r.fault_fired /\ cfg.fault_kind = "signal" => ~r.ok /\ ~didExec, "C18_no_program_without_clean_signal_state")
       \cup V(~cfg.expect_start /\ ~cfg.has_fault => ~r.ok /\ r.errkind = "io", "C07_failure_reported")
       \cup V(~cfg.expect_start /\ ~cfg.has_fault /\ cfg.class \in {"path-only-empty-local", "path-slash", "path-empty", "path-unset"}
                => ~r.ok /\ r.errkind = "io", "C15_error_when_nothing_startable")
       \* C15: something runs iff some entry can start it; otherwise an operating-system error
       \cup V(cfg.has_path /\ FirstStartable = 0 => ~r.ok /\ r.errkind = "io" /\ r.errno # 0, "C15_error_when_nothing_startable")
       \cup V(cfg.has_path /\ FirstStartable # 0 => r.ok, "C15_first_startable_runs")
  /\ UNCHANGED <<cfg, base, pre, ptab, ctab, forked, nforks, execd, didExec, attempts, libpipes, maxAllocs,
                 reported, penv, pcwd, pass, parentStdTouched, sanity>>

\* ---------------------------------------------------------------- the child's own report
\* held = parent's table while it holds the Popen (to identify the pipe ends stored in it)
Peer(parentEnd, childEnd) == parentEnd.ino = childEnd.ino /\ parentEnd.acc + childEnd.acc = 1

WiringOk(rt, held) ==
  \A i \in 0..2 :
    LET c == StreamCfg(i) IN
    /\ i \in DOMAIN rt \/ (c = "none" /\ i \notin DOMAIN pre)      \* (closed in the parent and not configured: see below)
    /\ CASE c = "none"  -> \/ i \notin DOMAIN pre /\ i \notin DOMAIN rt
                           \/ i \in DOMAIN pre /\ i \in DOMAIN rt /\ rt[i].ino = pre[i].ino /\ rt[i].acc = pre[i].acc
         [] c = "pipe"  -> res.ok => LET pf == res.pfd[i + 1] IN
                             pf \in DOMAIN held /\ Peer(held[pf], rt[i])
                             /\ (IF i = 0 THEN rt[i].acc = 0 ELSE rt[i].acc = 1)
         [] c \in {"file", "dup", "rc"} ->
                           \E k \in 1..Len(pass) :
                               pass[k][2] = i /\ pass[k][1] \in DOMAIN pre /\ Obj(rt, i) = Obj(pre, pass[k][1])
         [] c = "merge" -> LET o == IF i = 2 THEN 1 ELSE 2 IN o \in DOMAIN rt /\ Obj(rt, i) = Obj(rt, o)
         [] OTHER -> FALSE

\* descriptors above 2 the new image may legitimately see: whatever was inheritable in the harness
\* before the library did anything; never an end of a pipe the library created
NoLeak(rt) == \A fd \in DOMAIN rt : fd > 2 => rt[fd].ino \notin libpipes
\* and the standard streams themselves are library pipes only where a pipe (or a merge onto one) was asked for
StdNotStray(rt) ==
  \A i \in 0..2 : (i \in DOMAIN rt /\ rt[i].ino \in libpipes) =>
     \/ StreamCfg(i) = "pipe"
     \/ StreamCfg(i) = "merge" /\ StreamCfg(IF i = 2 THEN 1 ELSE 2) = "pipe"
     \* (or it is the parent's own stream, inherited or merged onto: the parent logs through a child of its own)
     \/ StreamCfg(i) = "none" /\ i \in DOMAIN pre /\ pre[i].ino = rt[i].ino
     \/ StreamCfg(i) = "merge" /\ LET o == IF i = 2 THEN 1 ELSE 2 IN
                                   StreamCfg(o) = "none" /\ o \in DOMAIN pre /\ pre[o].ino = rt[i].ino
     \* (or the caller itself passed an end of a pipe of another Popen as this stream: a hand-made pipeline)
     \/ StreamCfg(i) \in {"file", "dup", "rc"}
     \/ StreamCfg(i) = "merge" /\ StreamCfg(IF i = 2 THEN 1 ELSE 2) \in {"file", "dup", "rc"}

Dedupe(env) ==
  LET n == Len(env)
      tagged == [i \in 1..n |-> <<i, env[i]>>]
      kept == SelectSeq(tagged, LAMBDA p : ~\E j \in (p[1] + 1)..n : env[j][1] = p[2][1])
  IN [i \in 1..Len(kept) |-> kept[i][2][1] \o "3d" \o kept[i][2][2]]

Report(r, held) ==
  LET rt == Tab(r.fds) IN
  /\ reported' = TRUE
  /\ sanity' = sanity \cup V(didExec => View(rt) = View(execd), "child_table_differs_from_fd_model")
  /\ viol' = viol
       \cup V(WiringOk(rt, Tab(held)), "C05_wiring")
       \* a stream that was not configured and is closed in the parent is closed in the child (nothing of the launch's own
       \* making may land on its number)
       \cup V(\A i \in 0..2 : (StreamCfg(i) = "none" /\ i \notin DOMAIN pre
                               /\ ~(StreamCfg(IF i = 2 THEN 1 ELSE 2) = "merge" /\ i # 0)) => i \notin DOMAIN rt,
              "C05_closed_stream_stays_closed")
       \cup V(NoLeak(rt), "C08_no_pipe_end_leaks")
       \cup V(StdNotStray(rt), "C08_no_pipe_end_leaks")
       \cup V(r.mask_empty, "C18_signal_mask_empty")
       \cup V(~r.sigpipe_ignored, "C18_sigpipe_default")
       \cup V(r.argv = cfg.argv, "C06_argv_exact")
       \cup V(IF cfg.has_env THEN r.env = Dedupe(cfg.env) ELSE SetOf(r.env) = penv, "C06_env_exact")
       \cup V(r.cwd = (IF cfg.has_cwd THEN cfg.cwd ELSE pcwd), "C06_cwd")
       \cup V(cfg.setuid >= 0 => r.ruid = cfg.setuid /\ r.euid = cfg.setuid /\ r.suid = cfg.setuid, "C06_identity")
       \cup V(cfg.setgid >= 0 => r.rgid = cfg.setgid /\ r.egid = cfg.setgid /\ r.sgid = cfg.setgid, "C06_identity")
       \cup V(cfg.setuid < 0 => r.euid = 0, "C06_identity")
       \cup V(cfg.setgid < 0 => r.egid = 0, "C06_identity")
       \cup V(IF cfg.setpgid THEN r.pgid_is_pid ELSE r.pgid_is_parent_pgid, "C06_process_group")
       \cup V(cfg.has_expexe => r.exe = cfg.expexe, "C15_no_search_for_slash_or_empty_path")
       \cup V(cfg.has_path => r.exe = PathExpected, "C15_first_startable_runs")
       \cup V(res.ok \/ StatusUnreadable, "C07_started_but_error_returned")
  /\ UNCHANGED <<cfg, base, pre, ptab, ctab, forked, nforks, execd, didExec, attempts, libpipes, maxAllocs, res,
                 penv, pcwd, pass, parentStdTouched>>

\* the environment the child must see for an explicit list: key=value, the later of duplicate keys wins and
\* the survivors keep their order (names and values are hex strings, "3d" is '=')
\* (defined before use below)
\* a child that started a program although create() returned an error
StrayReport ==
  /\ viol' = viol \cup (IF StatusUnreadable THEN {} ELSE {"C07_started_but_error_returned"})
  /\ UNCHANGED <<cfg, base, pre, ptab, ctab, forked, nforks, execd, didExec, attempts, libpipes, maxAllocs, res,
                 reported, penv, pcwd, pass, parentStdTouched, sanity>>

\* create() returned Ok but no program reported in
NoReport ==
  /\ viol' = viol \cup {"C07_ok_only_if_started"}
  /\ UNCHANGED <<cfg, base, pre, ptab, ctab, forked, nforks, execd, didExec, attempts, libpipes, maxAllocs, res,
                 reported, penv, pcwd, pass, parentStdTouched, sanity>>

\* The scenario hung until the watchdog killed the children.  holders = the pipe inodes each child
\* held on descriptors above 2.  A child holding an end of a library-created pipe there is the leak
\* that explains the hang (the launch-status pipe never closes / end-of-file never arrives).
\* self = the library was blocked reading a pipe whose writing end its own process still held (a descriptor it lost track
\* of): the launch could never have returned.
Watchdog(inos, self) ==
  /\ IF inos \cap libpipes # {} \/ self
     THEN viol' = viol \cup {"C08_eof_not_propagated", "C07_launch_hangs", "C05_hang", "C01_launch_never_returns"} /\ sanity' = sanity
     ELSE viol' = viol /\ sanity' = sanity \cup {"watchdog_without_explanation"}
  /\ UNCHANGED <<cfg, base, pre, ptab, ctab, forked, nforks, execd, didExec, attempts, libpipes, maxAllocs, res,
                 reported, penv, pcwd, pass, parentStdTouched>>

\* C08's consequence observed directly: the parent closed its end of a living command's stdin pipe while another launch
\* (successful or failing) was under way on another thread; `us` = how long the command's end-of-file took to arrive.
\* A forked child of the other launch holds a copy of that end only for the instants between fork and exec (or _exit).
EofLatency(us) ==
  /\ viol' = viol \cup V(us < 1000000, "C08_eof_as_soon_as_the_parent_closes")
  /\ UNCHANGED <<cfg, base, pre, ptab, ctab, forked, nforks, execd, didExec, attempts, libpipes, maxAllocs, res,
                 reported, penv, pcwd, pass, parentStdTouched, sanity>>

\* ---------------------------------------------------------------- after the call (and after the harness let go)
Post(t, children) ==
  LET pt == Tab(t) IN
  /\ viol' = viol
       \cup V(children = "none", "C07_no_child_left_behind")
       \* C12: a launch that failed after the fork still started a child; it must have been reaped when create() returns
       \cup V(~res.ok /\ forked => children = "none", "C12_child_of_failed_launch_reaped")
       \cup V({<<x[1], x[2], x[3]>> : x \in View(pt)} = {<<x[1], x[2], x[3]>> : x \in View(base)}, "C07_no_descriptor_left_open")
       \* (also not its close-on-exec flag: later children would lose the stream they are to inherit)
       \cup V(\A i \in 0..2 : i \in DOMAIN base => (i \in DOMAIN pt /\ pt[i].ino = base[i].ino /\ pt[i].acc = base[i].acc
                                                          /\ pt[i].cx = base[i].cx),
              "C05_parent_std_untouched")
  /\ UNCHANGED <<cfg, base, pre, ptab, ctab, forked, nforks, execd, didExec, attempts, libpipes, maxAllocs, res,
                 reported, penv, pcwd, pass, parentStdTouched, sanity>>
=============================================================================
