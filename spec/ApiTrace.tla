------------------------------ MODULE ApiTrace ------------------------------
(***************************************************************************)
(* Trace validation for pipelines and dropped handles on the real kernel.  *)
(***************************************************************************)
EXTENDS ApiEnv, Json, IOUtils

Rec == ndJsonDeserialize(IOEnv.TRACE)
VARIABLES l, scn
tvars == <<avars, l, scn>>
Ev == Rec[l]
IsEvent(e) == l <= Len(Rec) /\ Ev.e = e /\ l' = l + 1

TraceInit == l = 1 /\ scn = "none" /\ AInit
TReset  == IsEvent("reset") /\ scn' = Ev.id /\ AReset(Ev.cfg, Ev.kind, Ev.base)
TPre    == IsEvent("pre") /\ APre(Ev.fds) /\ UNCHANGED scn
TSys    == IsEvent("sys") /\ ASys(Ev.p, Ev.n, Ev.a, Ev.c, Ev.ret, Ev.allocs) /\ UNCHANGED scn
TStage  == IsEvent("stage") /\ AStage(Ev) /\ UNCHANGED scn
TRes    == IsEvent("presult") /\ AResult(Ev) /\ UNCHANGED scn
THRes   == IsEvent("hresult") /\ AResult(Ev) /\ UNCHANGED scn
TPHeld  == IsEvent("pheld") /\ APHeld(Ev.have, Ev.fds) /\ UNCHANGED scn
TDog    == IsEvent("watchdog") /\ AWatchdog(Ev) /\ UNCHANGED scn
TAfter  == IsEvent("after_drop") /\ AAfterDrop(Ev.children) /\ UNCHANGED scn
TPost ==
  /\ IsEvent("post")
  /\ PrintT(<<"RESULT", scn, viol \cup Verdict(Ev.fds, Ev.children), sanity \cup Sanity, "-">>)
  /\ UNCHANGED <<avars, scn>>
TEnd    == IsEvent("end") /\ UNCHANGED <<avars, scn>>

TraceNext == TReset \/ TPre \/ TSys \/ TStage \/ TRes \/ THRes \/ TPHeld \/ TDog \/ TAfter \/ TPost \/ TEnd
TraceSpec == TraceInit /\ [][TraceNext]_tvars

TraceAccepted ==
  LET d == TLCGet("stats").diameter IN
  IF d - 1 = Len(Rec) THEN PrintT(<<"ACCEPTED", Len(Rec)>>)
  ELSE /\ PrintT(<<"UNMATCHED", d, Rec[d]>>)
       /\ FALSE
=============================================================================
