SPECIFICATION Spec
CONSTANTS
  MaxN = 4
  MoveNotClone = TRUE
  KeepOnAppend = FALSE
INVARIANT NoViolation
CHECK_DEADLOCK FALSE
