SPECIFICATION Spec
CONSTANTS
  Piped = {"out","err"}
  Cap = 2
  K = 1
  ReadBuf = 2
  InLen = 0
  MaxOut = 3
  MaxErr = 3
  MaxChunk = 2
  Limits <- L_123
  TLims <- T_none
  MaxCalls = 3
  MaxNow = 0
  ShortIO = FALSE
  DeadlineCheck = TRUE
  CloseBeforeSend = TRUE
  ClearOnErr = TRUE
INVARIANT NoViolation EnvOk
CONSTRAINT Bound
