CONSTANTS
  SkipEmpty = TRUE
  ShellFallback = FALSE
  PreallocLongest = TRUE
  StartErr = 2
  MaxEntries = 2
  Lens = {3, 9}
SPECIFICATION Spec
INVARIANT Safe
CHECK_DEADLOCK FALSE
