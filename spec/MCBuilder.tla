------------------------------ MODULE MCBuilder ------------------------------
(* Every builder call sequence up to MaxOps over two keys, two values, a parent environment
   {A=0, C=0}: the code's representation (L2) behaves as the plain model (L1) allows. *)
EXTENDS Builder
CONSTANT MaxOps
VARIABLES ops, s1, s2, r2

ParentSeq == << <<"A", "0">>, <<"C", "0">> >>
Parent == SetOf(ParentSeq)
OpSet ==
  {<<"arg", a>> : a \in {"x", "y"}} \cup {<<"args", <<"p", "q">>>>}
  \cup {<<"env", k, v>> : k \in {"A", "B"}, v \in {"1", "2"}}
  \cup {<<"env_extend", << <<"A", "1">>, <<"B", "2">> >> >>, <<"env_extend", << <<"A", "2">>, <<"A", "1">> >> >>}
  \cup {<<"env_remove", k>> : k \in {"A", "B", "C"}} \cup {<<"env_clear">>}
  \cup {<<"cwd", d>> : d \in {"d1", "d2"}}
  \cup {<<"stdin", k>> : k \in {"pipe", "null", "data1", "merge"}}
  \cup {<<"stdout", k>> : k \in {"pipe", "null", "merge"}}
  \cup {<<"stderr", k>> : k \in {"pipe", "merge"}}
  \cup {<<"detached">>}
Terms == {"popen", "join", "capture", "communicate", "stream_stdout", "stream_stderr", "stream_stdin"}

Init == ops = <<>> /\ s1 = Init1(Parent) /\ s2 = Init2 /\ r2 = 0
Next ==
  /\ Len(ops) < MaxOps /\ r2 = 0
  /\ \E op \in OpSet :
       /\ ops' = Append(ops, op)
       /\ s2' = Step2(s2, op, ParentSeq)
       /\ r2' = IF Step2(s2, op, ParentSeq).panicked THEN Len(ops) + 1 ELSE 0
       /\ s1' = IF Verdict1(s1, op) = "must" THEN s1 ELSE Step1(s1, op)
Spec == Init /\ [][Next]_<<ops, s1, s2, r2>>

Refines ==
  /\ RefusalAllowed(Verdicts1(Parent, ops), r2)
  /\ r2 = 0 =>
       /\ s2.args = s1.args /\ s2.cwd = s1.cwd /\ s2.det = s1.det
       /\ Env2(s2, ParentSeq) = s1.env
       /\ \A t \in Terms : IF Term2Panics(s2, t) THEN Term1(s1, t) \in {"must", "may"} ELSE Term1(s1, t) \in {"acc", "may"}
=============================================================================
