SPECIFICATION Spec
CONSTANTS
  MaxOps = 4
  Durations <- D0125
  Statuses <- St3
  MaxNow = 6
  DelayCap = 2
  Signals = {10}
  GateSignals = TRUE
  CheckPid = TRUE
INVARIANT NoViolation
CONSTRAINT Bound
