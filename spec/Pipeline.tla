------------------------------- MODULE Pipeline -------------------------------
(***************************************************************************)
(* L2 for C13 / C14: how src/builder.rs composes commands into a pipeline   *)
(* and wires them when it is started.                                       *)
(*                                                                         *)
(* Composition: a tree over the API's three operators -- Exec | Exec,       *)
(* Pipeline | Exec, Pipeline | Pipeline (which also takes the right-hand    *)
(* side's stdout setting) -- or the iterator constructor.  Whatever the     *)
(* tree, the command list must be the leaves in order.                      *)
(*                                                                         *)
(* Pipeline::popen(): the first command gets the pipeline's stdin, the last *)
(* one its stdout; for idx > 0 the previous Popen's stdout (the read end of *)
(* the connecting pipe, taken out of it) becomes this command's stdin; for  *)
(* idx < last stdout = Pipe creates the next connecting pipe, whose read    *)
(* end is stored in this command's Popen.  A command that cannot be started *)
(* aborts the loop: the stdin it was given is dropped with it and the Vec   *)
(* of Popens started so far is dropped (waited for), front to back.         *)
(*                                                                         *)
(* Objects: <<"link", i, "r"|"w">> ends of the pipe between command i and   *)
(* i+1 (1-based), "IN" / "OUT" the pipeline's configured stdin / stdout.    *)
(* Checked for every tree, length, and failing position:                    *)
(*   - command i's stdout and command i+1's stdin are the two ends of link i*)
(*   - nobody else holds an end of link i (other commands, or the parent    *)
(*     once popen() has returned)                                           *)
(*   - IN reaches only command 1, OUT only command n                        *)
(*   - after a failure at k: commands k+1.. were never started and the      *)
(*     parent holds no end of any link                                      *)
(*   - what was configured on a pipeline survives appending a command to it *)
(* KeepOnAppend = TRUE is the code (`pipeline | command` pushes onto the   *)
(* existing pipeline); FALSE models rebuilding it from its commands.        *)
(* MoveNotClone = TRUE is the code (the read end is MOVED into the next     *)
(* command); FALSE models handing over a duplicate and keeping the original.*)
(***************************************************************************)
EXTENDS Naturals, Sequences, FiniteSets, TLC

CONSTANTS MaxN, MoveNotClone, KeepOnAppend

\* ---------------------------------------------------------------- composition
\* a tree is a leaf <<i>> or a node <<left, right, c>>; Exec | Pipeline does not exist in the API.
\* c > 0: after this composition the caller configured the resulting pipeline (.stdin(c), .stdout(c)); c = 0: it did not
IsLeaf(t) == Len(t) = 1
RECURSIVE Leaves(_)
Leaves(t) == IF IsLeaf(t) THEN t ELSE Leaves(t[1]) \o Leaves(t[2])
\* the builder's BitOr implementations, on [cmds, pipe, stdin, stdout] (0 = the default, inherit)
RECURSIVE Compose(_)
Compose(t) ==
  IF IsLeaf(t) THEN [cmds |-> t, pipe |-> FALSE, stdin |-> 0, stdout |-> 0]
  ELSE LET l == Compose(t[1])
           r == Compose(t[2])
           p == CASE ~l.pipe /\ ~r.pipe -> [cmds |-> <<l.cmds[1], r.cmds[1]>>, pipe |-> TRUE, stdin |-> 0, stdout |-> 0]  \* Pipeline::new(a, b)
                  [] l.pipe /\ ~r.pipe  -> IF KeepOnAppend
                                           THEN [l EXCEPT !.cmds = Append(l.cmds, r.cmds[1])]                          \* self.cmds.push(rhs); self
                                           ELSE [cmds |-> Append(l.cmds, r.cmds[1]), pipe |-> TRUE, stdin |-> 0, stdout |-> 0] \* (rebuilt from the commands)
                  [] l.pipe /\ r.pipe   -> [l EXCEPT !.cmds = l.cmds \o r.cmds, !.stdout = r.stdout]                     \* extend; takes rhs.stdout
                  [] OTHER              -> [cmds |-> <<>>, pipe |-> FALSE, stdin |-> 0, stdout |-> 0]                    \* not expressible
       IN IF t[3] > 0 THEN [p EXCEPT !.stdin = t[3], !.stdout = t[3]] ELSE p
\* what the caller may expect, stated without looking at the implementation: the pipeline's input setting is the
\* outermost one made on a (sub)pipeline that starts with the first command; its output setting the outermost one made
\* on a (sub)pipeline that -- at the time -- ended with what is now... the last command, where appending a single command
\* extends the pipeline on its left (its settings stay) and joining two pipelines keeps the right one's output setting
RECURSIVE CfgIn(_)
CfgIn(t) == IF IsLeaf(t) THEN 0 ELSE IF t[3] > 0 THEN t[3] ELSE CfgIn(t[1])
RECURSIVE CfgOut(_)
CfgOut(t) == IF IsLeaf(t) THEN 0 ELSE IF t[3] > 0 THEN t[3]
             ELSE IF IsLeaf(t[2]) THEN CfgOut(t[1]) ELSE CfgOut(t[2])
RECURSIVE Trees(_, _)
Trees(lo, hi) ==     \* all API-expressible trees over the leaves lo..hi, each composition configured afterwards or not
  IF lo = hi THEN {<<lo>>}
  ELSE UNION {{<<l, r, c>> : l \in Trees(lo, k), r \in Trees(k + 1, hi), c \in {0, 10 * lo + hi}} :
              k \in {j \in lo..(hi - 1) : (j = lo) => (hi = lo + 1)}}

\* ---------------------------------------------------------------- wiring
VARIABLES
  n, tree, failAt,   \* chosen initially: length, composition, failing position (0 = none)
  idx,               \* command being started (1-based); n + 1 when done
  ret,               \* Seq: per started command, the object stored in its Popen.stdout (None or a link read end)
  wired,             \* Seq: per started command [in, out] as the child sees them
  phase              \* "loop" | "ok" | "failed"
vars == <<n, tree, failAt, idx, ret, wired, phase>>

Link(i, e) == <<"link", i, e>>
None == <<"none">>
In == <<"IN">>
Out == <<"OUT">>

Init ==
  /\ n \in 2..MaxN /\ tree \in Trees(1, n) /\ failAt \in 0..n
  /\ idx = 1 /\ ret = <<>> /\ wired = <<>> /\ phase = "loop"

\* one iteration of the loop in Pipeline::popen()
Step ==
  /\ phase = "loop" /\ idx <= n
  /\ LET stdinObj == IF idx = 1 THEN In ELSE ret[idx - 1]          \* prev_stdout (taken or cloned)
         retPrev == IF idx = 1 \/ ~MoveNotClone THEN ret
                    ELSE [ret EXCEPT ![idx - 1] = None]              \* .take()
         outObj == IF idx = n THEN Out ELSE Link(idx, "w")
     IN IF failAt = idx
        THEN \* the command cannot be started: its Exec (owning stdinObj) is dropped, the loop returns the error
             /\ phase' = "failed" /\ ret' = retPrev /\ UNCHANGED <<wired, idx>>
        ELSE /\ wired' = Append(wired, [in |-> stdinObj, out |-> outObj])
             /\ ret' = Append(retPrev, IF idx = n THEN None ELSE Link(idx, "r"))
             /\ idx' = idx + 1
             /\ phase' = IF idx = n THEN "ok" ELSE "loop"
  /\ UNCHANGED <<n, tree, failAt>>

Done == phase \in {"ok", "failed"} /\ UNCHANGED vars
Next == Step \/ Done
Spec == Init /\ [][Next]_vars

\* ---------------------------------------------------------------- properties
Order == Compose(tree).cmds = [i \in 1..n |-> i] /\ Leaves(tree) = [i \in 1..n |-> i]
Settings == Compose(tree).stdin = CfgIn(tree) /\ Compose(tree).stdout = CfgOut(tree)

Started == Len(wired)
ParentHolds == {ret[i] : i \in 1..Len(ret)} \ {None}
Wiring ==
  /\ \A i \in 1..Started : wired[i].in = (IF i = 1 THEN In ELSE Link(i - 1, "r"))
  /\ \A i \in 1..Started : wired[i].out = (IF i = n THEN Out ELSE Link(i, "w"))
\* once started, the parent keeps of the links only what it must still hand on: the read end of the last link
\* while the loop runs, nothing at all when popen() has returned Ok
Exclusive ==
  /\ phase = "ok" => ParentHolds = {}
  /\ phase = "loop" => ParentHolds \subseteq {Link(Started, "r")}
\* after a failure at k the commands behind it were never started, and what the parent still holds of the links
\* is at most the read end of the last started command's stdout -- which the failed command's Exec owned and
\* dropped if it was moved, and which is still open (the C14b defect) if only a duplicate was handed over
AfterFailure ==
  phase = "failed" => /\ Started = failAt - 1
                      /\ ParentHolds = {}
NoViolation == Order /\ Settings /\ Wiring /\ Exclusive /\ AfterFailure
=============================================================================
