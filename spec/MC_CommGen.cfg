SPECIFICATION GenSpec
CONSTANTS
  Piped = {"in","out","err"}
  Cap = 2
  K = 1
  WriteSize = 1
  ReadBuf = 1
  InLen = 3
  MaxOut = 3
  MaxErr = 2
  MaxChunk = 2
  Limits <- L_12
  TLims <- T_012
  MaxCalls = 3
  MaxNow = 4
  PollMax = 2
  ShortIO = FALSE
  FixF6 = TRUE
  FixF7 = TRUE
INVARIANT Emit
CONSTRAINT Bound
CHECK_DEADLOCK FALSE
