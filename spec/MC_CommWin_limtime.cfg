SPECIFICATION Spec
CONSTANTS
  Piped = {"out"}
  Cap = 2
  K = 1
  ReadBuf = 2
  InLen = 0
  MaxOut = 4
  MaxErr = 0
  MaxChunk = 2
  Limits <- L_12
  TLims <- T_01
  MaxCalls = 3
  MaxNow = 1
  ShortIO = FALSE
  DeadlineCheck = TRUE
  CloseBeforeSend = TRUE
  ClearOnErr = TRUE
INVARIANT NoViolation EnvOk
CONSTRAINT Bound
