------------------------------ MODULE SpawnTrace ------------------------------
(***************************************************************************)
(* Trace validation for the launch properties: the system calls the real   *)
(* Popen::create issued on the real kernel (in the parent and inside the   *)
(* forked child), its result, the child's self-report and the state left   *)
(* behind are replayed through SpawnEnv; the descriptor-table model must   *)
(* predict exactly the table the new program image reports.                *)
(***************************************************************************)
EXTENDS SpawnEnv, Json, IOUtils

Rec == ndJsonDeserialize(IOEnv.TRACE)
VARIABLES l, scn, held
tvars == <<svars, l, scn, held>>
Ev == Rec[l]
IsEvent(e) == l <= Len(Rec) /\ Ev.e = e /\ l' = l + 1

TraceInit == l = 1 /\ scn = "none" /\ held = <<>> /\ SInit

TReset  == IsEvent("reset") /\ scn' = Ev.id /\ held' = <<>> /\ SReset(Ev.cfg, Ev.base)
TPre    == IsEvent("pre") /\ SPre(Ev.fds, SetOf(Ev.penv), Ev.pcwd, Ev.pass) /\ UNCHANGED <<scn, held>>
TSys    == IsEvent("sys") /\ Sys(Ev.p, Ev.n, Ev.a, Ev.b, Ev.c, Ev.ret, Ev.errno, Ev.s, Ev.allocs) /\ UNCHANGED <<scn, held>>
TResult == IsEvent("result") /\ Result(Ev) /\ UNCHANGED <<scn, held>>
THeld   == IsEvent("held") /\ held' = Ev.fds /\ UNCHANGED <<svars, scn>>
TReport == IsEvent("report") /\ Report(Ev, held) /\ UNCHANGED <<scn, held>>
TStray  == IsEvent("stray_report") /\ StrayReport /\ UNCHANGED <<scn, held>>
TNoRep  == IsEvent("noreport") /\ NoReport /\ UNCHANGED <<scn, held>>
TWatch  == IsEvent("watchdog") /\ Watchdog(UNION {SetOf(Ev.holders[i][2]) : i \in 1..Len(Ev.holders)}, Ev.self_deadlock) /\ UNCHANGED <<scn, held>>
TEofLat == IsEvent("eoflat") /\ EofLatency(Ev.us) /\ UNCHANGED <<scn, held>>
TPost   == IsEvent("post") /\ Post(Ev.fds, Ev.children) /\ UNCHANGED <<scn, held>>
TEnd ==
  /\ IsEvent("end")
  /\ PrintT(<<"RESULT", scn, viol, sanity, "-">>)
  /\ UNCHANGED <<svars, scn, held>>

TraceNext == TReset \/ TPre \/ TSys \/ TResult \/ THeld \/ TReport \/ TStray \/ TNoRep \/ TWatch \/ TEofLat \/ TPost \/ TEnd
TraceSpec == TraceInit /\ [][TraceNext]_tvars

TraceAccepted ==
  LET d == TLCGet("stats").diameter IN
  IF d - 1 = Len(Rec) THEN PrintT(<<"ACCEPTED", Len(Rec)>>)
  ELSE /\ PrintT(<<"UNMATCHED", d, Rec[d]>>)
       /\ FALSE
=============================================================================
