-------------------------------- MODULE Launch --------------------------------
(***************************************************************************)
(* L2 of C07 (and of C12 for the handle that results): the control flow of *)
(* Popen::create / os_start / Drop for Popen (src/popen.rs) around ONE     *)
(* launch, with a failure injected at any one step.                        *)
(*                                                                         *)
(*   parent:  prepare (status pipe, fcntl x2, stream pipes, argv/env/cwd   *)
(*            conversion) ; fork ; [child_state := Running] ; close the    *)
(*            status pipe's write end ; read the status pipe (repeated on  *)
(*            EINTR) ; 0 bytes = the image runs, 4 bytes = errno of the    *)
(*            child's failing step ; on any error create() clears          *)
(*            `detached` and drops the Popen, whose Drop waits for the     *)
(*            child iff it is Running and not detached.                    *)
(*   child:   chdir ; dup2 ; setgid ; setuid ; setpgid ; signal reset ;    *)
(*            exec -- the first failing step writes its errno into the     *)
(*            status pipe and _exit(127)s; a successful exec closes the    *)
(*            pipe (close-on-exec) without writing.                        *)
(*                                                                         *)
(* Spawn.tla has the descriptor tables of the same code; this module has   *)
(* what Spawn.tla leaves out: failures, the child's fate, who reaps it.    *)
(* Switches (the code = the first value):                                  *)
(*   StateAtFork  TRUE | FALSE  child_state set right after fork / only    *)
(*                              after the status read (seeded change C07g) *)
(*   RetryEintr   TRUE | FALSE  status read repeated on EINTR / not (F24)  *)
(*   ClearDetached TRUE | FALSE a failed create() un-detaches before the   *)
(*                              drop / not (F2: zombie of a detached       *)
(*                              failed launch)                             *)
(*   DecodeInLoop FALSE | TRUE  the child's errno is decoded after / inside *)
(*                              the EINTR retry loop (seeded change C07h:  *)
(*                              a child reporting EINTR is read again)     *)
(***************************************************************************)
EXTENDS Naturals, Sequences, FiniteSets, TLC

CONSTANTS StateAtFork, RetryEintr, ClearDetached, DecodeInLoop,
          Errnos          \* errno values a failing step may produce; 4 = EINTR

EINTR == 4
ParentSteps == {"prepare", "fork", "read"}
ChildSteps == <<"chdir", "dup2", "setgid", "setuid", "setpgid", "sigreset", "exec">>
ChildStepSet == {ChildSteps[i] : i \in 1..Len(ChildSteps)}
Plans == {[step |-> "none", errno |-> 0]}
           \cup {[step |-> s, errno |-> e] : s \in ParentSteps \cup ChildStepSet, e \in Errnos}

VARIABLES
  plan,       \* the failure injected into this launch (chosen initially)
  askedDet,   \* PopenConfig::detached
  pc,         \* parent: "prepare" "fork" "read" "fail" "drop_in_create" "returned_err" "holding" "drop_handle" "done"
  cstate,     \* Popen::child_state: "Preparing" | "Running" | "Finished"
  detached,   \* Popen::detached
  proc,       \* the child process: "none" | "lib" (forked, running library code) | "image" | "zombie" | "reaped"
  cstep,      \* index of the child's next step
  msg,        \* status pipe: 0 = nothing written, else the errno written
  wopen,      \* some write end of the status pipe is still open in the child
  readFaulted,\* the injected read failure has been delivered
  result,     \* [k |-> "none" | "ok" | "err", e |-> errno]
  started,    \* history: the program image was started
  blocked     \* history: a drop of a detached handle had to wait

vars == <<plan, askedDet, pc, cstate, detached, proc, cstep, msg, wopen, readFaulted, result, started, blocked>>

Init ==
  /\ plan \in Plans /\ askedDet \in BOOLEAN
  /\ pc = "prepare" /\ cstate = "Preparing" /\ detached = askedDet
  /\ proc = "none" /\ cstep = 1 /\ msg = 0 /\ wopen = FALSE /\ readFaulted = FALSE
  /\ result = [k |-> "none", e |-> 0] /\ started = FALSE /\ blocked = FALSE

Fail(e) == result' = [k |-> "err", e |-> e] /\ pc' = "fail"

\* ------------------------------------------------------------------ parent
Prepare ==
  /\ pc = "prepare"
  /\ IF plan.step = "prepare" THEN Fail(plan.errno) ELSE pc' = "fork" /\ UNCHANGED result
  /\ UNCHANGED <<plan, askedDet, cstate, detached, proc, cstep, msg, wopen, readFaulted, started, blocked>>

Fork ==
  /\ pc = "fork"
  /\ IF plan.step = "fork"
     THEN Fail(plan.errno) /\ UNCHANGED <<cstate, proc, wopen>>
     ELSE /\ proc' = "lib" /\ wopen' = TRUE /\ pc' = "read" /\ UNCHANGED result
          /\ cstate' = IF StateAtFork THEN "Running" ELSE cstate
  /\ UNCHANGED <<plan, askedDet, detached, cstep, msg, readFaulted, started, blocked>>

\* read() on the status pipe: fails as injected (once), else returns what was written or end-of-file
ReadFails ==
  /\ pc = "read" /\ plan.step = "read" /\ ~readFaulted
  /\ readFaulted' = TRUE
  /\ IF plan.errno = EINTR /\ RetryEintr THEN UNCHANGED <<pc, result>> ELSE Fail(plan.errno)
  /\ UNCHANGED <<plan, askedDet, cstate, detached, proc, cstep, msg, wopen, started, blocked>>

ReadReturns ==
  /\ pc = "read" /\ (plan.step = "read" => readFaulted)
  /\ msg # 0 \/ ~wopen
  /\ IF msg # 0
     THEN IF DecodeInLoop /\ msg = EINTR
          THEN /\ msg' = 0 /\ UNCHANGED <<pc, result, cstate>>      \* (taken for an interrupted read: the bytes are gone, read again)
          ELSE /\ Fail(msg) /\ UNCHANGED msg
               /\ cstate' = IF StateAtFork THEN cstate ELSE "Running"
     ELSE /\ result' = [k |-> "ok", e |-> 0] /\ pc' = "holding" /\ UNCHANGED msg
          /\ cstate' = IF StateAtFork THEN cstate ELSE "Running"
  /\ UNCHANGED <<plan, askedDet, detached, proc, cstep, wopen, readFaulted, started, blocked>>

\* create(): if let Err(err) = inst.os_start(..) { inst.detached = false; return Err(err) }  -- the Popen is dropped
FailReturn ==
  /\ pc = "fail"
  /\ detached' = IF ClearDetached THEN FALSE ELSE detached
  /\ pc' = "drop_in_create"
  /\ UNCHANGED <<plan, askedDet, cstate, proc, cstep, msg, wopen, readFaulted, result, started, blocked>>

\* Drop for Popen: wait iff Running and not detached (the wait blocks until the child is a zombie)
DropStep(from, to) ==
  /\ pc = from
  /\ IF ~detached /\ cstate = "Running"
     THEN /\ proc = "zombie"
          /\ proc' = "reaped" /\ cstate' = "Finished" /\ pc' = to /\ UNCHANGED blocked
     ELSE /\ pc' = to /\ UNCHANGED <<proc, cstate, blocked>>
  /\ UNCHANGED <<plan, askedDet, detached, cstep, msg, wopen, readFaulted, result, started>>

\* the caller lets go of the handle it got
CallerDrops ==
  /\ pc = "holding" /\ pc' = "drop_handle"
  /\ UNCHANGED <<plan, askedDet, cstate, detached, proc, cstep, msg, wopen, readFaulted, result, started, blocked>>

\* ------------------------------------------------------------------ child
ChildStep ==
  /\ proc = "lib"
  /\ LET s == ChildSteps[cstep] IN
     IF plan.step = s
     THEN msg' = plan.errno /\ proc' = "zombie" /\ wopen' = FALSE /\ UNCHANGED <<cstep, started>>   \* write errno ; _exit(127)
     ELSE IF s = "exec"
          THEN proc' = "image" /\ wopen' = FALSE /\ started' = TRUE /\ UNCHANGED <<cstep, msg>>     \* close-on-exec closes the pipe
          ELSE cstep' = cstep + 1 /\ UNCHANGED <<proc, wopen, msg, started>>
  /\ UNCHANGED <<plan, askedDet, pc, cstate, detached, readFaulted, result, blocked>>

ImageExits ==
  /\ proc = "image" /\ proc' = "zombie"
  /\ UNCHANGED <<plan, askedDet, pc, cstate, detached, cstep, msg, wopen, readFaulted, result, started, blocked>>

Finished == pc \in {"returned_err", "done"}

Next ==
  \/ Prepare \/ Fork \/ ReadFails \/ ReadReturns \/ FailReturn
  \/ DropStep("drop_in_create", "returned_err") \/ CallerDrops \/ DropStep("drop_handle", "done")
  \/ ChildStep \/ ImageExits
  \/ (Finished /\ UNCHANGED vars)

Spec == Init /\ [][Next]_vars /\ WF_vars(Next)

\* ------------------------------------------------------------------ properties
StatusUnreadable == plan.step = "read" /\ plan.errno # EINTR
Returned == pc \in {"returned_err", "holding", "drop_handle", "done"}

\* C07: a handle only when the image was started
OkOnlyIfStarted == result.k = "ok" => started
\* ... an error only when it was not (unless the parent could not learn the outcome)
ErrOnlyIfNotStarted == (Returned /\ result.k = "err" /\ ~StatusUnreadable) => ~started
\* ... carrying the errno of the step that failed
ErrnoOfFailingStep == result.k = "err" => result.e = plan.errno
\* ... a failing step is reported (an interrupted status read is not a failing step)
FailureReported == (Returned /\ plan.step # "none" /\ ~(plan.step = "read" /\ plan.errno = EINTR)) => result.k # "ok"
\* ... and nothing of the attempt is left: no running child, no zombie -- also when `detached` was asked for
NoChildLeftBehind == pc = "returned_err" => proc \in {"none", "reaped"}
\* C12: a non-detached handle reaps its child when dropped; a detached one never reaps
HandleReaps == (pc = "done" /\ ~askedDet) => proc = "reaped"
DetachedNeverReaps == (result.k = "ok" /\ askedDet) => proc # "reaped"

Safe == OkOnlyIfStarted /\ ErrOnlyIfNotStarted /\ ErrnoOfFailingStep /\ FailureReported /\ NoChildLeftBehind
        /\ HandleReaps /\ DetachedNeverReaps

\* create() returns, whatever fails (C07 "returns only after that is known" + it does return)
Returns == <>Returned
\* and every launch comes to rest
Terminates == <>Finished

\* ------------------------------------------------------------------ behaviours for replay into the real code
\* one line per (plan, detached) when the launch has come to rest: what create() must have returned, what is left
ReplayLine ==
  Finished => PrintT(<<"LAUNCH", plan.step, plan.errno, askedDet,
                        result.k, result.e, started, proc>>)
=============================================================================
