SPECIFICATION Spec
CONSTANTS
  Piped = {"in","out"}
  Cap = 3
  K = 2
  WriteSize = 2
  ReadBuf = 2
  InLen = 5
  MaxOut = 4
  MaxErr = 0
  MaxChunk = 3
  Limits <- L_none
  TLims <- T_none
  MaxCalls = 1
  MaxNow = 0
  PollMax = 2
  ShortIO = FALSE
  FixF6 = TRUE
  FixF7 = TRUE
INVARIANT NoViolation EnvOk
CONSTRAINT Bound
