SPECIFICATION Spec
CONSTANTS
  Piped = {"out","err"}
  Cap = 2
  K = 1
  ReadBuf = 1
  InLen = 0
  MaxOut = 4
  MaxErr = 3
  MaxChunk = 2
  Limits <- L_none
  TLims <- T_01
  MaxCalls = 2
  MaxNow = 2
  ShortIO = FALSE
  DeadlineCheck = FALSE
  CloseBeforeSend = TRUE
  ClearOnErr = TRUE
INVARIANT NoViolation EnvOk
CONSTRAINT Bound
