SPECIFICATION GenSpec
CONSTANTS
  MaxOps = 6
  MinOps = 3
  Durations <- D0138
  Statuses <- St4
  MaxNow = 14
  DelayCap = 100
  Signals <- Sig3
  GateSignals = TRUE
  CheckPid = TRUE
INVARIANT Emit
CONSTRAINT Bound
CHECK_DEADLOCK FALSE
