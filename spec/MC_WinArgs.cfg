SPECIFICATION Spec
CONSTANTS
  MaxLen = 4
  MaxArgs = 2
INVARIANT Faithful
