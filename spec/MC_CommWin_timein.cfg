SPECIFICATION Spec
CONSTANTS
  Piped = {"in","out"}
  Cap = 1
  K = 1
  ReadBuf = 1
  InLen = 2
  MaxOut = 2
  MaxErr = 0
  MaxChunk = 2
  Limits <- L_none
  TLims <- T_01
  MaxCalls = 2
  MaxNow = 2
  ShortIO = FALSE
  DeadlineCheck = TRUE
  CloseBeforeSend = TRUE
  ClearOnErr = TRUE
INVARIANT NoViolation EnvOk
CONSTRAINT Bound
