SPECIFICATION Spec
CONSTANTS
  Threads <- Two
  Conf <- ConfB
  AtomicCloexec = FALSE
  ChildrenExit = FALSE
INVARIANT NoViolation ParentStd
