-------------------------------- MODULE Spawn --------------------------------
(***************************************************************************)
(* L2 of the launch specification: the system-call sequence of             *)
(* Popen::create / os_start / setup_streams / do_exec (src/popen.rs) on    *)
(* the process-wide descriptor table, executed by one or two threads of    *)
(* the same process, one action per system call.                           *)
(*                                                                         *)
(*   parent thread t:  pipe (launch-status)  ; fcntl CLOEXEC x2 ;          *)
(*                     per piped stream: pipe ; fcntl CLOEXEC (parent end) *)
(*                     fork ; close child ends ; close status write end ;  *)
(*                     read status pipe (blocks until every copy of its    *)
(*                     write end is closed) ; close status read end        *)
(*   forked child:     close status read end ; dup2 child ends onto 0/1/2; *)
(*                     close the originals ; exec (drops CLOEXEC entries)  *)
(*                                                                         *)
(* A descriptor table maps fd -> [obj, cx]; obj = <<pipe id, "r"|"w">> or  *)
(* <<0, "s<i>">>.  fork copies the WHOLE process table as it is at that     *)
(* instant -- including what another thread created a moment ago and has   *)
(* not yet marked close-on-exec.                                           *)
(*                                                                         *)
(* Checked: at every exec the new image holds, above fd 2, no end of a     *)
(* pipe created by the library (C08); fds 0-2 are what was asked (C05);    *)
(* the parent's fds 0-2 are never touched (C05); every create() returns    *)
(* (no state without successor before all threads are done) (C07).         *)
(* AtomicCloexec = TRUE models pipes born close-on-exec (pipe2).           *)
(***************************************************************************)
EXTENDS Naturals, Integers, Sequences, FiniteSets, TLC

CONSTANTS
  Threads,        \* e.g. {1, 2}
  Conf,           \* [Threads -> <<stdin, stdout, stderr>>], each "none" | "pipe"
  AtomicCloexec,  \* FALSE = the code (pipe(); fcntl()), TRUE = pipe2(O_CLOEXEC)
  ChildrenExit    \* TRUE: started programs may exit (and close everything) at any time

VARIABLES
  fdt,      \* the process's descriptor table
  npipes,   \* pipe ids handed out so far
  pc,       \* [Threads -> control point]
  efp,      \* [Threads -> <<read fd, write fd>>] launch-status pipe
  pend,     \* [Threads -> [0..2 -> parent-end fd | -1]]
  cend,     \* [Threads -> [0..2 -> child-end fd | -1]]
  si,       \* [Threads -> stream being set up (0..3)]
  ctab,     \* [Threads -> child's table, <<>> before fork]
  cpc,      \* [Threads -> child's control point]
  ptodo,    \* [Threads -> descriptors the parent thread still has to close after its fork]
  images,   \* set of tables of the program images started so far (they live on)
  viol

vars == <<fdt, npipes, pc, efp, pend, cend, si, ctab, cpc, ptodo, images, viol>>

StdObj(i) == <<0, CASE i = 0 -> "s0" [] i = 1 -> "s1" [] OTHER -> "s2">>   \* pipe ids start at 1
InitTab == [fd \in 0..2 |-> [obj |-> StdObj(fd), cx |-> FALSE]]
Lowest(t, n) == CHOOSE s \in SUBSET (0..(Cardinality(DOMAIN t) + n)) :
                  /\ Cardinality(s) = n /\ s \cap DOMAIN t = {}
                  /\ \A x \in s, y \in (0..(Cardinality(DOMAIN t) + n)) \ (DOMAIN t \cup s) : x < y
With(t, fd, e) == [x \in DOMAIN t \cup {fd} |-> IF x = fd THEN e ELSE t[x]]
Without(t, fd) == [x \in DOMAIN t \ {fd} |-> t[x]]
Min(S) == CHOOSE x \in S : \A y \in S : x <= y
Max(S) == CHOOSE x \in S : \A y \in S : x >= y
V(ok, name) == IF ok THEN {} ELSE {name}

Init ==
  /\ fdt = InitTab /\ npipes = 0
  /\ pc = [t \in Threads |-> "efp_pipe"]
  /\ efp = [t \in Threads |-> <<-1, -1>>]
  /\ pend = [t \in Threads |-> [i \in 0..2 |-> -1]]
  /\ cend = [t \in Threads |-> [i \in 0..2 |-> -1]]
  /\ si = [t \in Threads |-> 0]
  /\ ctab = [t \in Threads |-> <<>>] /\ cpc = [t \in Threads |-> "none"] /\ ptodo = [t \in Threads |-> {}]
  /\ images = {} /\ viol = {}

\* pipe(): the two lowest free descriptors
DoPipe(r, w) ==
  LET s == Lowest(fdt, 2) IN
  /\ r = Min(s) /\ w = Max(s)
  /\ npipes' = npipes + 1
  /\ fdt' = With(With(fdt, r, [obj |-> <<npipes + 1, "r">>, cx |-> AtomicCloexec]),
                 w, [obj |-> <<npipes + 1, "w">>, cx |-> AtomicCloexec])

U(t) == UNCHANGED <<ctab, cpc, ptodo, images, viol>>

EfpPipe(t) ==
  /\ pc[t] = "efp_pipe"
  /\ \E r, w \in 0..64 : DoPipe(r, w) /\ efp' = [efp EXCEPT ![t] = <<r, w>>]
  /\ pc' = [pc EXCEPT ![t] = "efp_cx0"]
  /\ UNCHANGED <<pend, cend, si>> /\ U(t)

EfpCx(t, k) ==
  /\ pc[t] = (IF k = 1 THEN "efp_cx0" ELSE "efp_cx1")
  /\ fdt' = [fdt EXCEPT ![efp[t][k]].cx = TRUE]
  /\ pc' = [pc EXCEPT ![t] = IF k = 1 THEN "efp_cx1" ELSE "streams"]
  /\ UNCHANGED <<npipes, efp, pend, cend, si>> /\ U(t)

\* setup_streams, stream si[t]: a pipe whose parent end is marked close-on-exec
StreamPipe(t) ==
  /\ pc[t] = "streams" /\ si[t] <= 2 /\ Conf[t][si[t] + 1] = "pipe"
  /\ \E r, w \in 0..64 :
       /\ DoPipe(r, w)
       /\ IF si[t] = 0
          THEN pend' = [pend EXCEPT ![t][0] = w] /\ cend' = [cend EXCEPT ![t][0] = r]
          ELSE pend' = [pend EXCEPT ![t][si[t]] = r] /\ cend' = [cend EXCEPT ![t][si[t]] = w]
  /\ pc' = [pc EXCEPT ![t] = "stream_cx"]
  /\ UNCHANGED <<efp, si>> /\ U(t)

StreamCx(t) ==
  /\ pc[t] = "stream_cx"
  /\ fdt' = [fdt EXCEPT ![pend[t][si[t]]].cx = TRUE]
  /\ si' = [si EXCEPT ![t] = @ + 1]
  /\ pc' = [pc EXCEPT ![t] = "streams"]
  /\ UNCHANGED <<npipes, efp, pend, cend>> /\ U(t)

StreamSkip(t) ==
  /\ pc[t] = "streams" /\ si[t] <= 2 /\ Conf[t][si[t] + 1] = "none"
  /\ si' = [si EXCEPT ![t] = @ + 1]
  /\ UNCHANGED <<fdt, npipes, pc, efp, pend, cend>> /\ U(t)

Fork(t) ==
  /\ pc[t] = "streams" /\ si[t] = 3
  /\ ctab' = [ctab EXCEPT ![t] = fdt]          \* the whole table, as it is right now
  /\ cpc' = [cpc EXCEPT ![t] = "c_close_efp"]
  /\ pc' = [pc EXCEPT ![t] = "p_close"]
  /\ ptodo' = [ptodo EXCEPT ![t] = ({cend[t][i] : i \in 0..2} \cup {efp[t][2]}) \ {-1}]
  /\ UNCHANGED <<fdt, npipes, efp, pend, cend, si, images, viol>>

\* parent: drop the child ends and the status write end (one close per step)
ParentClose(t) ==
  /\ pc[t] = "p_close"
  /\ IF ptodo[t] = {} THEN pc' = [pc EXCEPT ![t] = "p_read"] /\ UNCHANGED <<fdt, ptodo>>
     ELSE LET fd == Min(ptodo[t]) IN
          /\ fdt' = Without(fdt, fd) /\ ptodo' = [ptodo EXCEPT ![t] = @ \ {fd}] /\ UNCHANGED pc
  /\ UNCHANGED <<npipes, efp, pend, cend, si, ctab, cpc, images, viol>>

\* does anybody still hold the write end of pipe p
WriteEndHeld(p) ==
  \/ \E fd \in DOMAIN fdt : fdt[fd].obj = <<p, "w">>
  \/ \E u \in Threads : ctab[u] # <<>> /\ cpc[u] # "done" /\ \E fd \in DOMAIN ctab[u] : ctab[u][fd].obj = <<p, "w">>
  \/ \E im \in images : \E fd \in DOMAIN im : im[fd].obj = <<p, "w">>

\* parent: read() on the status pipe returns 0 once every copy of its write end is gone
ParentRead(t) ==
  /\ pc[t] = "p_read"
  /\ ~WriteEndHeld(fdt[efp[t][1]].obj[1])
  /\ fdt' = Without(fdt, efp[t][1])
  /\ pc' = [pc EXCEPT ![t] = "done"]
  /\ UNCHANGED <<npipes, efp, pend, cend, si>> /\ U(t)

\* ---------------------------------------------------------------- the forked child of thread t
CU == UNCHANGED <<fdt, npipes, pc, efp, pend, cend, si, ptodo>>

ChildCloseEfp(t) ==
  /\ cpc[t] = "c_close_efp"
  /\ ctab' = [ctab EXCEPT ![t] = Without(@, efp[t][1])]
  /\ cpc' = [cpc EXCEPT ![t] = "c_dup"]
  /\ UNCHANGED <<images, viol>> /\ CU

\* dup2 of every child end onto its target, then close of the originals
ChildDup(t) ==
  /\ cpc[t] = "c_dup"
  /\ LET D[i \in 0..3] ==
           IF i = 0 THEN ctab[t]
           ELSE LET prev == D[i - 1]
                    ce == cend[t][i - 1]
                IN IF ce = -1 \/ ce = i - 1 THEN prev ELSE With(prev, i - 1, [prev[ce] EXCEPT !.cx = FALSE])
         closed == [fd \in DOMAIN D[3] \ ({cend[t][i] : i \in 0..2} \ {0, 1, 2}) |-> D[3][fd]]
     IN ctab' = [ctab EXCEPT ![t] = closed]
  /\ cpc' = [cpc EXCEPT ![t] = "c_exec"]
  /\ UNCHANGED <<images, viol>> /\ CU

LibPipe(o) == o[1] \in 1..npipes
ChildExec(t) ==
  /\ cpc[t] = "c_exec"
  /\ LET im == [fd \in {x \in DOMAIN ctab[t] : ~ctab[t][x].cx} |-> ctab[t][fd]]
         wired == \A i \in 0..2 :
                    IF Conf[t][i + 1] = "none" THEN i \in DOMAIN im /\ im[i].obj = StdObj(i)
                    ELSE /\ i \in DOMAIN im /\ pend[t][i] \in DOMAIN fdt
                         /\ im[i].obj[1] = fdt[pend[t][i]].obj[1] /\ im[i].obj[2] # fdt[pend[t][i]].obj[2]
         noleak == \A fd \in DOMAIN im : (fd > 2 /\ LibPipe(im[fd].obj)) =>
                      \E i \in (DOMAIN im) \cap (0..2) : im[i].obj = im[fd].obj
     IN /\ images' = images \cup {im}
        /\ viol' = viol \cup V(wired, "C05_wiring") \cup V(noleak, "C08_no_pipe_end_leaks")
  /\ cpc' = [cpc EXCEPT ![t] = "done"]
  /\ UNCHANGED ctab /\ CU

ImageExits ==
  /\ ChildrenExit
  /\ \E im \in images : images' = images \ {im}
  /\ UNCHANGED <<fdt, npipes, pc, efp, pend, cend, si, ctab, cpc, ptodo, viol>>

ParentStdOk == \A i \in 0..2 : i \in DOMAIN fdt /\ fdt[i].obj = StdObj(i)

Next ==
  \/ \E t \in Threads :
       \/ EfpPipe(t) \/ EfpCx(t, 1) \/ EfpCx(t, 2) \/ StreamPipe(t) \/ StreamCx(t) \/ StreamSkip(t) \/ Fork(t)
       \/ ParentClose(t) \/ ParentRead(t) \/ ChildCloseEfp(t) \/ ChildDup(t) \/ ChildExec(t)
  \/ ImageExits
  \/ ((\A t \in Threads : pc[t] = "done") /\ UNCHANGED vars)

Spec == Init /\ [][Next]_vars

NoViolation == viol = {}
ParentStd == ParentStdOk
\* C07: create() returns only after the launch is known, and it does return: a thread stuck in p_read for ever
\* (another child holds a copy of the status pipe's write end) shows up as a deadlock of the whole model
=============================================================================
