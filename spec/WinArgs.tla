------------------------------- MODULE WinArgs -------------------------------
(***************************************************************************)
(* C20.  The Windows command-line assembly of src/popen.rs                 *)
(* (assemble_cmdline / append_quoted, the "ArgvQuote" algorithm)           *)
(* transcribed, and the parsing rules of the Microsoft C runtime /         *)
(* CommandLineToArgvW:                                                     *)
(*   - arguments are separated by spaces or tabs outside quotes            *)
(*   - 2n backslashes followed by " give n backslashes and toggle quoting  *)
(*   - 2n+1 backslashes followed by " give n backslashes and a literal "   *)
(*   - backslashes not followed by " are literal                           *)
(*   - inside quotes, "" gives a literal " (and quoting continues)         *)
(*   - the program name (first argument) is parsed by the simpler rule:    *)
(*     if it starts with " it extends to the next ", else to the first     *)
(*     blank; no backslash processing                                      *)
(* Property: MsParse(Assemble(argv)) = argv; NUL is rejected.              *)
(* Strings are sequences of UTF-16 code units.                             *)
(***************************************************************************)
EXTENDS Naturals, Sequences, FiniteSets, TLC

DQ == 34
BS == 92
SP == 32
TAB == 9
NL == 10
VT == 11

\* ---------------------------------------------------------------- the assembler (transcribed)
NeedsQuotes(a) == a = <<>> \/ \E i \in 1..Len(a) : a[i] \in {SP, TAB, NL, VT, DQ}
Rep(c, n) == [i \in 1..n |-> c]

\* body of the quoting loop: position i, returns the units appended
RECURSIVE QuoteBody(_, _)
QuoteBody(a, i) ==
  IF i > Len(a) THEN <<>>
  ELSE LET RunEnd[j \in i..(Len(a) + 1)] == IF j <= Len(a) /\ a[j] = BS THEN RunEnd[j + 1] ELSE j
           e == RunEnd[i]
           nb == e - i
       IN IF e > Len(a) THEN Rep(BS, 2 * nb)
          ELSE IF a[e] = DQ THEN Rep(BS, 2 * nb + 1) \o <<DQ>> \o QuoteBody(a, e + 1)
          ELSE Rep(BS, nb) \o <<a[e]>> \o QuoteBody(a, e + 1)
AppendQuoted(a) == IF ~NeedsQuotes(a) THEN a ELSE <<DQ>> \o QuoteBody(a, 1) \o <<DQ>>

RECURSIVE JoinSp(_)
JoinSp(ws) == IF ws = <<>> THEN <<>> ELSE IF Len(ws) = 1 THEN ws[1] ELSE ws[1] \o <<SP>> \o JoinSp(Tail(ws))
HasNul(argv) == \E i \in 1..Len(argv) : \E j \in 1..Len(argv[i]) : argv[i][j] = 0
Assemble(argv) == JoinSp([i \in 1..Len(argv) |-> AppendQuoted(argv[i])])

\* ---------------------------------------------------------------- Microsoft's parser
White(c) == c \in {SP, TAB}

\* the program name
ParseProg(l) ==
  IF l # <<>> /\ l[1] = DQ
  THEN LET Close[j \in 2..(Len(l) + 1)] == IF j > Len(l) \/ l[j] = DQ THEN j ELSE Close[j + 1]
           c == Close[2]
       IN [arg |-> SubSeq(l, 2, c - 1), next |-> c + 1]
  ELSE LET End[j \in 1..(Len(l) + 1)] == IF j > Len(l) \/ White(l[j]) THEN j ELSE End[j + 1]
           e == End[1]
       IN [arg |-> SubSeq(l, 1, e - 1), next |-> e]

\* one further argument starting at i (not white): returns [arg, next]
RECURSIVE ParseArg(_, _, _, _)
ParseArg(l, i, inq, acc) ==
  IF i > Len(l) THEN [arg |-> acc, next |-> i]
  ELSE IF l[i] = BS THEN
    LET RunEnd[j \in i..(Len(l) + 1)] == IF j <= Len(l) /\ l[j] = BS THEN RunEnd[j + 1] ELSE j
        e == RunEnd[i]
        nb == e - i
    IN IF e <= Len(l) /\ l[e] = DQ
       THEN IF nb % 2 = 0
            THEN ParseArg(l, e, inq, acc \o Rep(BS, nb \div 2))          \* the quote itself is handled next
            ELSE ParseArg(l, e + 1, inq, acc \o Rep(BS, nb \div 2) \o <<DQ>>)
       ELSE ParseArg(l, e, inq, acc \o Rep(BS, nb))
  ELSE IF l[i] = DQ THEN
    IF inq /\ i + 1 <= Len(l) /\ l[i + 1] = DQ
    THEN ParseArg(l, i + 2, TRUE, acc \o <<DQ>>)                         \* "" inside quotes
    ELSE ParseArg(l, i + 1, ~inq, acc)
  ELSE IF White(l[i]) /\ ~inq THEN [arg |-> acc, next |-> i]
  ELSE ParseArg(l, i + 1, inq, Append(acc, l[i]))

RECURSIVE ParseRest(_, _)
ParseRest(l, i) ==
  LET Skip[j \in i..(Len(l) + 1)] == IF j <= Len(l) /\ White(l[j]) THEN Skip[j + 1] ELSE j
      s == Skip[i]
  IN IF s > Len(l) THEN <<>>
     ELSE LET r == ParseArg(l, s, FALSE, <<>>) IN <<r.arg>> \o ParseRest(l, r.next)

MsParse(l) == LET p == ParseProg(l) IN <<p.arg>> \o ParseRest(l, p.next)

RoundTrip(argv) == MsParse(Assemble(argv)) = argv
=============================================================================
