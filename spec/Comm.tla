--------------------------------- MODULE Comm ---------------------------------
(***************************************************************************)
(* L2 of the communicate specification: the algorithm of                   *)
(* src/communicate.rs (unix RawCommunicator::read_into + maybe_poll +      *)
(* posix::poll + Communicator::read), one action per system call or        *)
(* decision, running in the environment of CommEnv against every child     *)
(* program (committed blocking operations chosen nondeterministically).    *)
(*                                                                         *)
(* TLC checks that no monitor of CommEnv ever fires (viol = {}), that the  *)
(* only states without a successor are final ones (deadlock freedom), and  *)
(* -- under fairness -- that a call returns once the child is done.        *)
(*                                                                         *)
(* The constants FixF6 / FixF7 / WriteSize select the algorithm variant:   *)
(* the pinned code (both FALSE) is kept so that TLC exhibits the           *)
(* counterexamples for the two defects found in it; the repaired code is   *)
(* both TRUE.  WriteSize > K models a too-large write chunk.               *)
(***************************************************************************)
EXTENDS CommEnv

CONSTANTS
  Piped,      \* which streams are piped
  Cap, K,     \* pipe capacity, PIPE_BUF (units)
  WriteSize, ReadBuf, \* the library's chunk sizes (units); the code has 4096 bytes = K
  InLen,      \* units of input
  MaxOut, MaxErr, \* units the child may write in total
  MaxChunk,   \* largest single child read / write
  Limits,     \* size limits a call may use (-1 = none)
  TLims,      \* time limits a call may use, in ms (-1 = none)
  MaxCalls,
  MaxNow,     \* clock bound (ms)
  PollMax,    \* the OS poll limit (ms), stands for i32::MAX
  ShortIO,
  FixF6, FixF7

VARIABLES
  pc,         \* control point of the library
  outRef, errRef,   \* stdout_ref / stderr_ref: streams still read in this call
  outvec, errvec,
  ready,      \* <<in_ready, out_ready, err_ready>> of the current iteration
  ncalls,
  expiredSeen,\* FixF6: the deadline was seen expired before the previous poll
  pollT0, pollTmo, pollOver, pollDl,  \* posix::poll state: call instant, timeout, overflow, own deadline
  blocked,    \* the library is known to be waiting in its current system call
  hadTl       \* a time limit has been set on this Communicator (limits can be changed but not unset)

lvars == <<pc, outRef, errRef, outvec, errvec, ready, ncalls, expiredSeen, pollT0, pollTmo, pollOver, pollDl,
           blocked, hadTl>>
vars == <<envvars, lvars>>

Ids(s, from, n) == [i \in 1..n |-> (CASE s = "in" -> 40000 [] s = "out" -> 0 [] s = "err" -> 20000) + from + i]
InputSeq == Ids("in", 0, InLen)
MsT(m) == <<0, m * 1000000>>          \* model time: whole milliseconds, < 1 s
NowMs == now[2] \div 1000000

Init ==
  /\ EnvInit(Piped, Cap, K, ShortIO, InputSeq, FALSE)
  /\ pc = "idle" /\ outRef = FALSE /\ errRef = FALSE /\ outvec = <<>> /\ errvec = <<>>
  /\ ready = <<FALSE, FALSE, FALSE>> /\ ncalls = 0 /\ expiredSeen = FALSE
  /\ pollT0 = <<0, 0>> /\ pollTmo = -1 /\ pollOver = FALSE /\ pollDl = NoTime /\ blocked = FALSE /\ hadTl = FALSE

\* ---------------------------------------------------------------- environment moves
ChildOps ==
  {[op |-> "rd", n |-> n] : n \in 1..MaxChunk}
  \cup {[op |-> "wr", s |-> "out", ids |-> Ids("out", Len(written["out"]), n), total |-> n] :
          n \in 1..(IF "out" \in Piped /\ cOpen["out"] THEN Min(MaxChunk, MaxOut - Len(written["out"])) ELSE 0)}
  \cup {[op |-> "wr", s |-> "err", ids |-> Ids("err", Len(written["err"]), n), total |-> n] :
          n \in 1..(IF "err" \in Piped /\ cOpen["err"] THEN Min(MaxChunk, MaxErr - Len(written["err"])) ELSE 0)}
  \cup {[op |-> "close", s |-> s] : s \in {x \in Piped : cOpen[x]}}
  \cup {[op |-> "exit"]}

EnvNext ==
  \/ \E op \in ChildOps : ChildCommit(op)
  \/ cPend.op = "rd" /\ \E n \in 0..Min(cPend.n, Len(buf["in"])) :
        ChildRd(Prefix(buf["in"], n), n = 0)
  \/ cPend.op = "wr" /\ \E n \in 0..Len(cPend.ids) :
        ChildWr(cPend.s, Prefix(cPend.ids, n), n = Len(cPend.ids))
  \/ cPend.op = "wr" /\ ChildEpipe(cPend.s)
  \/ cPend.op = "close" /\ ChildClose(cPend.s)
  \/ ChildExit
  \/ NowMs < MaxNow /\ Tick(MsT(NowMs + 1))

\* ---------------------------------------------------------------- the library
Total == Len(outvec) + Len(errvec)
LU == UNCHANGED <<outRef, errRef, outvec, errvec, ready, ncalls, expiredSeen, pollT0, pollTmo, pollOver, pollDl, hadTl>>

\* Communicator::read -> RawCommunicator::read -> read_into prologue
LCall ==
  /\ pc = "idle" /\ ncalls < MaxCalls
  /\ \E lim \in Limits, tl \in TLims :
       /\ lim < 0 => limit < 0          \* limit_size / limit_time replace a limit, nothing removes one
       /\ tl < 0 => ~hadTl
       /\ Call(lim, IF tl < 0 THEN NoTime ELSE MsT(tl))
       /\ hadTl' = (hadTl \/ tl >= 0)
  /\ pc' = "top"
  /\ outRef' = pOpen["out"] /\ errRef' = pOpen["err"]
  /\ outvec' = <<>> /\ errvec' = <<>> /\ expiredSeen' = FALSE /\ blocked' = FALSE
  /\ UNCHANGED <<ready, ncalls, pollT0, pollTmo, pollOver, pollDl>>

\* loop head: size limit reached / nothing left / (repaired code) deadline seen before last poll
LTop ==
  /\ pc = "top"
  /\ IF limit >= 0 /\ Total >= limit THEN pc' = "ret_ok" /\ UNCHANGED expiredSeen
     ELSE IF ~pOpen["in"] /\ ~outRef /\ ~errRef THEN pc' = "ret_ok" /\ UNCHANGED expiredSeen
     ELSE IF FixF6 /\ expiredSeen THEN pc' = "ret_to" /\ UNCHANGED expiredSeen
     ELSE /\ pc' = "maybe_poll"
          /\ expiredSeen' = (dl # NoTime /\ TLe(dl, now))
  /\ UNCHANGED <<envvars, outRef, errRef, outvec, errvec, ready, ncalls, pollT0, pollTmo, pollOver, pollDl, blocked, hadTl>>

PolledSet == (IF pOpen["in"] THEN {"in"} ELSE {}) \cup (IF outRef THEN {"out"} ELSE {})
             \cup (IF errRef THEN {"err"} ELSE {})

\* remaining time to `d` from now, in whole ms (Duration::as_millis truncates)
RemMs(d) == IF TLe(d, now) THEN 0 ELSE (d[2] - now[2]) \div 1000000

\* maybe_poll: single stream and no deadline => no poll at all
LMaybePoll ==
  /\ pc = "maybe_poll"
  /\ IF dl = NoTime /\ Cardinality(PolledSet) = 1
     THEN /\ ready' = <<"in" \in PolledSet, "out" \in PolledSet, "err" \in PolledSet>>
          /\ pc' = "io_in"
          /\ UNCHANGED <<pollT0, pollTmo, pollOver, pollDl>>
     ELSE /\ pc' = "poll"
          /\ pollT0' = now
          /\ LET t == IF dl = NoTime THEN -1 ELSE RemMs(dl) IN
             /\ pollDl' = IF dl = NoTime THEN NoTime ELSE IF TLe(dl, now) THEN now ELSE dl
             /\ pollOver' = (t > PollMax)
             /\ pollTmo' = IF t > PollMax THEN PollMax ELSE t
          /\ UNCHANGED ready
  /\ UNCHANGED <<envvars, outRef, errRef, outvec, errvec, ncalls, expiredSeen, blocked, hadTl>>

Flag(rev, s, fl) == s \in DOMAIN rev /\ rev[s] \cap fl # {}

\* libc::poll returns (posix::poll loops when the timeout overflowed and nothing is ready)
LPoll ==
  /\ pc = "poll"
  /\ LET fds == PolledSet
         rev == [s \in fds |-> Revents(s)]
         cnt == Cardinality({s \in fds : rev[s] # {}})
     IN
     /\ PPoll(fds, pollTmo, pollT0, rev, pollT0, TRUE)
     /\ IF cnt # 0 \/ ~pollOver
        THEN /\ ready' = << Flag(rev, "in", IF FixF7 THEN {"OUT", "HUP", "ERR"} ELSE {"OUT", "HUP"}),
                            Flag(rev, "out", {"IN", "HUP"}), Flag(rev, "err", {"IN", "HUP"}) >>
             /\ pc' = "polled"
             /\ UNCHANGED <<pollT0, pollTmo, pollOver>>
        ELSE IF TLe(pollDl, now)
        THEN /\ ready' = <<FALSE, FALSE, FALSE>> /\ pc' = "polled"
             /\ UNCHANGED <<pollT0, pollTmo, pollOver>>
        ELSE /\ LET t == RemMs(pollDl) IN
                /\ pollOver' = (t > PollMax)
                /\ pollTmo' = IF t > PollMax THEN PollMax ELSE t
             /\ pollT0' = now /\ pc' = "poll" /\ UNCHANGED ready
  /\ blocked' = FALSE
  /\ UNCHANGED <<outRef, errRef, outvec, errvec, ncalls, expiredSeen, pollDl, hadTl>>

LPolled ==
  /\ pc = "polled"
  /\ pc' = IF ready = <<FALSE, FALSE, FALSE>> THEN "ret_to" ELSE "io_in"
  /\ UNCHANGED <<envvars, outRef, errRef, outvec, errvec, ready, ncalls, expiredSeen, pollT0, pollTmo, pollOver,
                 pollDl, blocked, hadTl>>

WriteChunk == LET rest == Drop(input, Len(inAcc) - pwDone) IN Prefix(rest, Min(WriteSize, Len(rest)))
WriteWouldBlock ==
  /\ cOpen["in"] /\ WriteChunk # <<>>
  /\ IF Len(WriteChunk) <= K THEN Free("in") < Len(WriteChunk) ELSE Free("in") = 0

\* write one chunk of the remaining input
LWrite ==
  /\ pc = "io_in"
  /\ IF ~ready[1] THEN pc' = "io_out" /\ UNCHANGED <<envvars, blocked>>
     ELSE LET chunk == WriteChunk
          IN \/ /\ \E n \in 0..Len(chunk) : PWrite(chunk, n)
                /\ pc' = IF Len(inAcc') = Len(input) THEN "close_in" ELSE "io_out"
                /\ blocked' = FALSE
             \/ /\ Len(chunk) > K /\ Free("in") > 0 /\ Free("in") < Len(chunk) - pwDone
                /\ PWpart(SubSeq(chunk, pwDone + 1, pwDone + Free("in")))
                /\ pc' = pc /\ blocked' = FALSE
             \/ /\ chunk # <<>> /\ PWriteEpipe
                /\ pc' = "ret_err" /\ blocked' = FALSE
  /\ LU

LCloseIn ==
  /\ pc = "close_in"
  /\ PClose("in")
  /\ pc' = "io_out" /\ blocked' = FALSE
  /\ LU

\* do_read on one output stream
LRead(s, flagIdx, nextpc) ==
  /\ pc = (IF s = "out" THEN "io_out" ELSE "io_err")
  /\ IF ~ready[flagIdx] \/ (limit >= 0 /\ Total >= limit)
     THEN pc' = nextpc /\ UNCHANGED <<envvars, outRef, errRef, outvec, errvec, blocked>>
     ELSE LET want == IF limit >= 0 /\ limit - Total < ReadBuf THEN limit - Total ELSE ReadBuf IN
          \E n \in 0..Min(want, Len(buf[s])) :
            LET ids == Prefix(buf[s], n) IN
            /\ PRead(s, want, ids)
            /\ IF s = "out"
               THEN /\ outvec' = outvec \o ids /\ outRef' = (outRef /\ ids # <<>>)
                    /\ UNCHANGED <<errvec, errRef>>
               ELSE /\ errvec' = errvec \o ids /\ errRef' = (errRef /\ ids # <<>>)
                    /\ UNCHANGED <<outvec, outRef>>
            /\ pc' = nextpc /\ blocked' = FALSE
  /\ UNCHANGED <<ready, ncalls, expiredSeen, pollT0, pollTmo, pollOver, pollDl, hadTl>>

\* the library waits in a system call that cannot complete yet
LBlock ==
  /\ ~blocked
  /\ \/ pc = "poll" /\ \A s \in PolledSet : Revents(s) = {}
             /\ ~(pollTmo >= 0 /\ TLe(TAdd(pollT0, MsT(pollTmo)), now))
     \/ pc = "io_in" /\ ready[1] /\ WriteWouldBlock
     \/ pc = "io_out" /\ ready[2] /\ ~(limit >= 0 /\ Total >= limit) /\ buf["out"] = <<>> /\ cOpen["out"]
     \/ pc = "io_err" /\ ready[3] /\ ~(limit >= 0 /\ Total >= limit) /\ buf["err"] = <<>> /\ cOpen["err"]
  /\ PBlock
  /\ blocked' = TRUE
  /\ UNCHANGED <<pc, outRef, errRef, outvec, errvec, ready, ncalls, expiredSeen, pollT0, pollTmo, pollOver, pollDl, hadTl>>

LRet ==
  /\ pc \in {"ret_ok", "ret_to", "ret_err"}
  /\ Ret(CASE pc = "ret_ok" -> "ok" [] pc = "ret_to" -> "timedout" [] OTHER -> "oserr",
         pOpen["out"], outvec, pOpen["err"], errvec, TRUE)
  /\ pc' = "idle" /\ ncalls' = ncalls + 1 /\ blocked' = FALSE
  /\ UNCHANGED <<outRef, errRef, outvec, errvec, ready, expiredSeen, pollT0, pollTmo, pollOver, pollDl, hadTl>>

\* the caller drops the Communicator: the remaining descriptors are closed
LDrop ==
  /\ pc \in {"idle", "dropping"}
  /\ IF \E s \in Streams : pOpen[s]
     THEN /\ \E s \in Streams : pOpen[s] /\ PClose(s)
          /\ pc' = "dropping"
     ELSE pc' = "dropped" /\ UNCHANGED envvars
  /\ blocked' = FALSE
  /\ LU

LibNext ==
  \/ LCall \/ LTop \/ LMaybePoll \/ LPoll \/ LPolled \/ LWrite \/ LCloseIn
  \/ LRead("out", 2, "io_err") \/ LRead("err", 3, "top") \/ LBlock \/ LRet \/ LDrop

Finished == pc = "dropped" /\ ~cAlive
Done == Finished /\ UNCHANGED vars

Next == (EnvNext /\ UNCHANGED lvars) \/ LibNext \/ Done

Spec == Init /\ [][Next]_vars
FairSpec == Spec /\ WF_vars(LibNext) /\ WF_vars(EnvNext /\ UNCHANGED lvars)

\* ---------------------------------------------------------------- properties
NoViolation == viol = {}
EnvOk == EnvConsistent

\* C01 (termination): once the child has exited, a pending call returns
ChildGone == ~cAlive
Returned == pc \in {"idle", "dropping", "dropped"}
Termination == ChildGone ~> Returned

\* state constraint for bounded exploration
Bound == NowMs <= MaxNow

\* reachability witnesses (each must be VIOLATED in a sanity run: the bad-looking state is reachable)
W_ChildBlockedOnFullOut == ~(cPend.op = "wr" /\ cPend.s = "out" /\ Free("out") = 0 /\ pc = "poll")
W_ParentSeesStdinFull  == ~(pc = "poll" /\ "in" \in PolledSet /\ ~PollOut)
W_TimedOut == ~(pc = "ret_to")
W_LimitHit == ~(pc = "ret_ok" /\ limit >= 0 /\ Total >= limit)
=============================================================================
