------------------------------ MODULE MCProcGen ------------------------------
(***************************************************************************)
(* Behaviour generator for the child-lifecycle model: Proc (the algorithm   *)
(* of src/popen.rs over ProcEnv) extended with a history variable that      *)
(* records, in order, the environment steps (exit / external reap / pid     *)
(* reuse / clock ticks between calls), the API calls with their arguments,  *)
(* every system call the handle issues and every result it returns.  Run    *)
(* with `tlc -simulate`; each behaviour that ends with the handle dropped   *)
(* is printed as one JSON line ("GEN ...") and replayed into the real Popen *)
(* by proc_replay: the environment steps are placed between the real        *)
(* library's system calls exactly where the model had them, and the system  *)
(* calls and results of the real code are compared with the model's.        *)
(***************************************************************************)
EXTENDS MCProc, Json

CONSTANT MinOps   \* the handle is not dropped before this many calls (longer histories)
VARIABLE hist
gvars == <<vars, hist>>

EnvLabel ==
  IF cst = "running" /\ cst' = "zombie" THEN [t |-> "exit", k |-> truth'.k, v |-> truth'.v]
  ELSE IF cst = "zombie" /\ cst' = "reaped_ext" THEN [t |-> "xreap", k |-> "-", v |-> 0]
  ELSE IF cst = "reaped_ext" /\ cst' = "alien" THEN [t |-> "reuse", k |-> "-", v |-> 0]
  ELSE [t |-> "tick", k |-> "-", v |-> 1]

\* a library step shows in the history when it is a call, a system call, or a return
LibLabel ==
  IF op = "none" /\ op' # "none" THEN <<[t |-> "call", k |-> op', v |-> IF op' = "send_signal" THEN opN' ELSE opD'[2] \div 1000000]>>
  ELSE IF op # "none" /\ op' = "none" THEN <<[t |-> "ret", k |-> res.k, v |-> res.v]>>
  ELSE IF nsys' # nsys THEN <<[t |-> "sys", k |-> IF nkill' # nkill THEN "kill" ELSE IF nwait' # nwait THEN "waitpid" ELSE "sleep", v |-> 0]>>
  ELSE <<>>

GenInit == Init /\ hist = <<[t |-> "init", k |-> IF det THEN "detached" ELSE "-", v |-> 0]>>
GenNext ==
  \/ (~(dropped /\ pc = "idle") /\ EnvNext /\ UNCHANGED lvars /\ hist' = Append(hist, EnvLabel))
  \/ (LibNext /\ (pc = "idle" /\ pc' = "drop" => nops >= MinOps) /\ hist' = hist \o LibLabel)
GenSpec == GenInit /\ [][GenNext]_gvars

Finished == dropped /\ pc = "idle"
Emit == Finished => PrintT(<<"GEN", ToJson([hist |-> hist])>>)
D0138 == {0, 1, 3, 8}
D_wide == {0, 2, 5, 16, 40}
St4 == {[k |-> "exited", v |-> 0], [k |-> "exited", v |-> 3], [k |-> "exited", v |-> 255], [k |-> "signaled", v |-> 9]}
Sig3 == {0, 10, 15}
=============================================================================
