SPECIFICATION Spec
CONSTANTS
  Piped = {"in","out"}
  Cap = 2
  K = 2
  WriteSize = 2
  ReadBuf = 2
  InLen = 4
  MaxOut = 3
  MaxErr = 0
  MaxChunk = 3
  Limits <- L_none
  TLims <- T_none
  MaxCalls = 1
  MaxNow = 0
  PollMax = 2
  ShortIO = TRUE
  FixF6 = TRUE
  FixF7 = TRUE
INVARIANT NoViolation EnvOk
CONSTRAINT Bound
