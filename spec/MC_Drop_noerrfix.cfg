SPECIFICATION Spec
CONSTANTS
  Cap = 2
  Amount = 4
  CloseFirst = TRUE
  ReadPipeFix = TRUE
  ErrPipeFix = FALSE
  ReleaseAllFix = TRUE
INVARIANT Reaped
