SPECIFICATION Spec
CONSTANTS
  Threads <- Two
  Conf <- ConfB
  AtomicCloexec = TRUE
  ChildrenExit = FALSE
INVARIANT NoViolation ParentStd
