------------------------------ MODULE MCPipeline ------------------------------
EXTENDS Pipeline
\* number of distinct compositions TLC explored, for the evidence file
TreeCount == [k \in 2..MaxN |-> Cardinality(Trees(1, k))]
ASSUME PrintT(<<"TREES", TreeCount>>)
=============================================================================
