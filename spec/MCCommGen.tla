------------------------------ MODULE MCCommGen ------------------------------
(***************************************************************************)
(* Behaviour generator: Comm (the algorithm model over CommEnv) extended    *)
(* with a history variable that records, in order, the environment steps    *)
(* (child commits / child progress / clock ticks), the API calls with their *)
(* limits and the points where the library's system calls return.  Run     *)
(* with `tlc -simulate`; every behaviour that reaches the final state is    *)
(* printed as one JSON line ("GEN ...") and replayed into the real          *)
(* Communicator by comm_replay (scenario + event script).                   *)
(***************************************************************************)
EXTENDS MCComm, Json

VARIABLE hist
gvars == <<vars, hist>>

EnvLabel ==
  IF cPend.op = "none" /\ cPend'.op # "none"
  THEN [t |-> "commit", op |-> cPend'.op,
        s |-> IF cPend'.op \in {"wr", "close"} THEN cPend'.s ELSE "-",
        n |-> IF cPend'.op = "rd" THEN cPend'.n ELSE IF cPend'.op = "wr" THEN Len(cPend'.ids) ELSE 0]
  ELSE IF now' # now THEN [t |-> "tick", op |-> "-", s |-> "-", n |-> 1]
  ELSE [t |-> "cstep", op |-> "-", s |-> "-", n |-> 0]

\* a library step is visible in the schedule when it is an API call or a system call that returned
CallLabel == [t |-> "call", op |-> "-", s |-> "-", n |-> limit', tl |-> IF dl' = NoTime THEN -1 ELSE (dl'[2] - now[2]) \div 1000000]
P(o) == [t |-> "P", op |-> o, s |-> "-", n |-> 0]
Quiet == hist' = hist
Sys(o) == hist' = Append(hist, P(o))

GenInit == Init /\ hist = <<>>
GenNext ==
  \/ (EnvNext /\ UNCHANGED lvars /\ hist' = Append(hist, EnvLabel))
  \/ (LCall /\ hist' = Append(hist, CallLabel))
  \/ (LPoll /\ Sys("poll"))
  \/ (LWrite /\ (IF ready[1] /\ pc' # pc THEN Sys("io_in") ELSE Quiet))        \* (a partial transfer of a big write is not a return)
  \/ (LCloseIn /\ Sys("close_in"))
  \/ (LRead("out", 2, "io_err") /\ (IF ready[2] /\ ~(limit >= 0 /\ Total >= limit) THEN Sys("io_out") ELSE Quiet))
  \/ (LRead("err", 3, "top") /\ (IF ready[3] /\ ~(limit >= 0 /\ Total >= limit) THEN Sys("io_err") ELSE Quiet))
  \/ (LDrop /\ (IF \E s \in Streams : pOpen[s] THEN Sys("dropping") ELSE Quiet))
  \/ ((LTop \/ LMaybePoll \/ LPolled \/ LBlock \/ LRet) /\ Quiet)
GenSpec == GenInit /\ [][GenNext]_gvars

\* printed once per behaviour, when the exchange is over
Emit == Finished => PrintT(<<"GEN", ToJson([piped |-> Piped, cap |-> Cap, k |-> K, inlen |-> InLen, short |-> ShortIO, hist |-> hist])>>)
StopAtEnd == ~Finished
=============================================================================
