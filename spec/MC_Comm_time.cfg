SPECIFICATION Spec
CONSTANTS
  Piped = {"in","out"}
  Cap = 1
  K = 1
  WriteSize = 1
  ReadBuf = 1
  InLen = 2
  MaxOut = 2
  MaxErr = 0
  MaxChunk = 1
  Limits <- L_none
  TLims <- T_012
  MaxCalls = 2
  MaxNow = 3
  PollMax = 2
  ShortIO = FALSE
  FixF6 = TRUE
  FixF7 = TRUE
INVARIANT NoViolation EnvOk
CONSTRAINT Bound
