CONSTANTS
  StateAtFork = TRUE
  RetryEintr = TRUE
  ClearDetached = TRUE
  DecodeInLoop = TRUE
  Errnos = {2, 4, 5, 13}
SPECIFICATION Spec
INVARIANT Safe
PROPERTY Returns
PROPERTY Terminates
CHECK_DEADLOCK FALSE
