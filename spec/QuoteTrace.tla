------------------------------ MODULE QuoteTrace ------------------------------
(***************************************************************************)
(* Trace validation for C19 and C20: the parsers of ShQuote / WinArgs are  *)
(* applied to the ACTUAL output of the library's rendering code.           *)
(***************************************************************************)
EXTENDS ShQuote, Json, IOUtils

W == INSTANCE WinArgs
E == INSTANCE WinEnv WITH RejectNul <- TRUE, Names <- {}, Values <- {}, MaxEntries <- 0

Rec == ndJsonDeserialize(IOEnv.TRACE)
VARIABLES l
Ev == Rec[l]
V(ok, name) == IF ok THEN {} ELSE {name}

\* NAME=value words in front of the command are assignments to sh, not part of the command (NAME: a letter or '_',
\* then letters, digits, '_'; words are sequences of code points)
IsNameStart(c) == (c >= 65 /\ c <= 90) \/ (c >= 97 /\ c <= 122) \/ c = 95
IsNameChar(c) == IsNameStart(c) \/ (c >= 48 /\ c <= 57)
IsAssign(w) == \E k \in 2..Len(w) : w[k] = 61 /\ IsNameStart(w[1]) /\ \A j \in 1..(k - 1) : IsNameChar(w[j])
RECURSIVE StripAssign(_)
StripAssign(ws) == IF ws # <<>> /\ IsAssign(ws[1]) THEN StripAssign(Tail(ws)) ELSE ws
Cmd(ev, words) == IF "env" \in DOMAIN ev THEN StripAssign(words) ELSE words

TraceInit == l = 1
TSh ==
  /\ l <= Len(Rec) /\ Ev.e = "shcase" /\ l' = l + 1
  /\ LET parsed0 == IF "env" \in DOMAIN Ev THEN ShSplitAssign(Ev.out) ELSE ShSplit(Ev.out)
         parsed == IF parsed0 # Error /\ Len(parsed0) = 1 THEN <<Cmd(Ev, parsed0[1])>> ELSE parsed0
         viol == V(parsed = Ev.stages, "C19_shell_reads_back_the_command")
                 \cup V(Ev.debug_matches, "C19_debug_output_is_the_command_line")
                 \* the alternate Debug form ({:#?}, what dbg!() prints) is a command line shown, too
                 \cup V(LET a0 == IF "env" \in DOMAIN Ev THEN ShSplitAssign(Ev.alt) ELSE ShSplit(Ev.alt)
                            a == IF a0 # Error /\ Len(a0) = 1 THEN <<Cmd(Ev, a0[1])>> ELSE a0
                        IN a = Ev.stages, "C19_alternate_debug_output_reads_back")
                 \cup V(Ev.asked_sh => Ev.sh_runs = 1 /\ Ev.sh_argv = Ev.stages[1], "C19_real_sh_reads_back_the_command")
         \* the model of sh and the installed sh must agree whenever the model accepts the line
         san == V(Ev.asked_sh /\ parsed # Error /\ Len(parsed) = 1 /\ Ev.sh_runs = 1 => Ev.sh_argv = parsed[1], "sh_model_differs_from_real_sh")
     IN PrintT(<<"RESULT", Ev.id, viol, san, "-">>)
TWin ==
  /\ l <= Len(Rec) /\ Ev.e = "wincase" /\ l' = l + 1
  /\ LET viol == IF W!HasNul(Ev.argv)
                 THEN V(~Ev.ok, "C20_nul_rejected")
                 ELSE V(Ev.ok /\ W!MsParse(Ev.out) = Ev.argv, "C20_parses_back_to_argv")
     IN PrintT(<<"RESULT", Ev.id, viol, {}, "-">>)
\* C06, Windows variant: the environment block the extracted format_env_block produced, read back
TWinEnv ==
  /\ l <= Len(Rec) /\ Ev.e = "winenv" /\ l' = l + 1
  /\ LET env == [i \in 1..Len(Ev.env) |-> <<Ev.env[i][1], Ev.env[i][2]>>]
     IN PrintT(<<"RESULT", Ev.id, E!Verdict(env, Ev.ok, Ev.block), {}, "-">>)
TraceNext == TSh \/ TWin \/ TWinEnv
TraceSpec == TraceInit /\ [][TraceNext]_l
TraceAccepted ==
  LET d == TLCGet("stats").diameter IN
  IF d - 1 = Len(Rec) THEN PrintT(<<"ACCEPTED", Len(Rec)>>)
  ELSE /\ PrintT(<<"UNMATCHED", d, Rec[d]>>)
       /\ FALSE
=============================================================================
