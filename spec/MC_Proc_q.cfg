SPECIFICATION Spec
CONSTANTS
  MaxOps = 3
  Durations <- D013
  Statuses <- St2
  MaxNow = 4
  DelayCap = 2
  Signals = {10}
  GateSignals = TRUE
  CheckPid = TRUE
INVARIANT NoViolation
CONSTRAINT Bound
