SPECIFICATION Spec
CONSTANTS
  RejectNul = FALSE
  Names <- N1
  Values <- V1
  MaxEntries = 2
INVARIANT Inv
