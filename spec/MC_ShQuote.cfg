SPECIFICATION Spec
CONSTANTS
  FixEmpty = TRUE
  MaxLen = 3
  MaxArgs = 2
INVARIANT Faithful
