SPECIFICATION Spec
CONSTANTS
  Cap = 2
  Amount = 4
  CloseFirst = TRUE
  ReadPipeFix = TRUE
  ErrPipeFix = TRUE
  ReleaseAllFix = FALSE
INVARIANT Reaped
