------------------------------ MODULE ProcTrace ------------------------------
(***************************************************************************)
(* Trace validation for C09-C11 (and the Popen part of C12): recorded      *)
(* executions of a real Popen whose child pid and clock are virtual are    *)
(* replayed through ProcEnv; the monitors are evaluated at every step.     *)
(***************************************************************************)
EXTENDS ProcEnv, Json, IOUtils

Rec == ndJsonDeserialize(IOEnv.TRACE)
VARIABLES l, scn
tvars == <<pvars, l, scn>>
Ev == Rec[l]
IsEvent(e) == l <= Len(Rec) /\ Ev.e = e /\ l' = l + 1
T(p) == <<p[1], p[2]>>
St(r) == [k |-> r.k, v |-> r.v]

TraceInit == l = 1 /\ scn = "none" /\ PInit(FALSE)

TReset   == IsEvent("reset") /\ scn' = Ev.id /\ PReset(Ev.detached)
TExit    == IsEvent("exit") /\ Exit(St(Ev.st), T(Ev.at)) /\ UNCHANGED scn
TXreap   == IsEvent("xreap") /\ XReap /\ UNCHANGED scn
TReuse   == IsEvent("reuse") /\ Reuse /\ UNCHANGED scn
TDelay   == IsEvent("delay") /\ Delay(T(Ev.now)) /\ UNCHANGED scn
TApi     == IsEvent("api") /\ T(Ev.now) = now /\ Api(Ev.op, T(Ev.d), Ev.n) /\ UNCHANGED scn
TApiRet  == IsEvent("apiret") /\ ApiRet(Ev.op, Ev.res, T(Ev.now)) /\ UNCHANGED scn
TWaitpid == IsEvent("waitpid") /\ Waitpid(Ev.nohang, Ev.ret, IF Ev.ret = VPid THEN St(Ev.st) ELSE NoSt) /\ UNCHANGED scn
TWEintr  == IsEvent("waitpid_eintr") /\ WaitpidEintr(Ev.nohang) /\ UNCHANGED scn
TWNoThr  == IsEvent("waitpid_nothread") /\ WaitpidNoThread(Ev.nohang) /\ UNCHANGED scn
TWBlock  == IsEvent("wait_block") /\ WaitBlock /\ UNCHANGED scn
THang    == IsEvent("hang_wait") /\ WaitBlock /\ UNCHANGED scn
TKill    == IsEvent("kill") /\ Kill(Ev.pid, Ev.sig, Ev.ret) /\ UNCHANGED scn
TFKill   == IsEvent("kill_other") /\ ForeignKill /\ UNCHANGED scn
TFWait   == IsEvent("waitpid_other") /\ ForeignWait /\ UNCHANGED scn
TSleep   == IsEvent("sleep") /\ Sleep(T(Ev.d), T(Ev.now)) /\ UNCHANGED scn
TBkRun   == IsEvent("bk_run") /\ BkRun(Ev.n, T(Ev.d), T(Ev.now)) /\ UNCHANGED scn
TRunaway == IsEvent("runaway") /\ Runaway /\ UNCHANGED scn
TStuck   == IsEvent("stuck") /\ Stuck /\ UNCHANGED scn
TEnd ==
  /\ IsEvent("end")
  /\ PrintT(<<"RESULT", scn, viol, {}, Ev.st>>)
  /\ UNCHANGED <<pvars, scn>>

TraceNext ==
  \/ TReset \/ TExit \/ TXreap \/ TReuse \/ TDelay \/ TApi \/ TApiRet \/ TWaitpid \/ TWEintr \/ TWNoThr \/ TWBlock \/ THang
  \/ TKill \/ TFKill \/ TFWait \/ TSleep \/ TBkRun \/ TRunaway \/ TStuck \/ TEnd

TraceSpec == TraceInit /\ [][TraceNext]_tvars

TraceAccepted ==
  LET d == TLCGet("stats").diameter IN
  IF d - 1 = Len(Rec) THEN PrintT(<<"ACCEPTED", Len(Rec)>>)
  ELSE /\ PrintT(<<"UNMATCHED", d, Rec[d]>>)
       /\ FALSE
=============================================================================
