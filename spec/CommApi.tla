------------------------------- MODULE CommApi -------------------------------
(***************************************************************************)
(* L1 of the communicate specification at the level of the API only, for   *)
(* executions on the REAL kernel where the library's system calls come     *)
(* from several threads and cannot be put into one order with the kernel's *)
(* state (the thread-based communicator, CommWin.tla).  What is observed:  *)
(* every read() call with its limits and start instant, every return with  *)
(* its kind, how many bytes it delivered per stream and whether they are   *)
(* the stream's content at the offset delivered so far (the streams carry  *)
(* position-dependent content, so loss, duplication, reordering and        *)
(* mis-routing all show), a hang with the evidence for it, and at the end  *)
(* the child's own account: how much it wrote to each stream, how much     *)
(* input it received and whether it was the input's content, whether and   *)
(* when it saw end-of-file and how long it was kept waiting for it after   *)
(* the last input byte, and the instants at which it closed its output     *)
(* streams.  The monitors are C01-C04 in that vocabulary; what needs the   *)
(* child's account is judged when it arrives (the history of returns is    *)
(* kept for that).  Times are <<seconds, nanoseconds>> of one monotonic    *)
(* clock shared by both processes.                                         *)
(***************************************************************************)
EXTENDS Naturals, Integers, Sequences, FiniteSets, TLC

VARIABLES
  piped, inlen,
  delivered,   \* [{"out","err"} -> Nat]: bytes returned so far
  inCall, limit, dl, t0,
  completeAt,  \* <<delivered out, delivered err>> at the first return that claimed completeness (ok, no limit), or <<>>
  emptyOkAt,   \* instant of the first successful all-empty return, or <<>>
  contentBad,  \* some return delivered bytes that are not the stream's content at that offset
  viol, sanity

avars == <<piped, inlen, delivered, inCall, limit, dl, t0, completeAt, emptyOkAt, contentBad, viol, sanity>>

Outs == {"out", "err"}
NoTime == <<>>
TLe(a, b) == a[1] < b[1] \/ (a[1] = b[1] /\ a[2] <= b[2])
TLt(a, b) == a[1] < b[1] \/ (a[1] = b[1] /\ a[2] < b[2])
TAdd(a, b) == LET n == a[2] + b[2] IN
              IF n >= 1000000000 THEN <<a[1] + b[1] + 1, n - 1000000000>> ELSE <<a[1] + b[1], n>>
V(ok, name) == IF ok THEN {} ELSE {name}

\* real time on a shared machine: generous, but far below what the defects produce
LateSlack == <<0, 700000000>>     \* a read() returns within this after its deadline
EofSlack  == <<0, 600000000>>     \* the child is not kept waiting longer than this for end-of-file

AInit ==
  /\ piped = {} /\ inlen = 0 /\ delivered = [o \in Outs |-> 0]
  /\ inCall = FALSE /\ limit = -1 /\ dl = NoTime /\ t0 = <<0, 0>>
  /\ completeAt = <<>> /\ emptyOkAt = NoTime /\ contentBad = FALSE /\ viol = {} /\ sanity = {}

AReset(p, n) ==
  /\ piped' = p /\ inlen' = n /\ delivered' = [o \in Outs |-> 0]
  /\ inCall' = FALSE /\ limit' = -1 /\ dl' = NoTime /\ t0' = <<0, 0>>
  /\ completeAt' = <<>> /\ emptyOkAt' = NoTime /\ contentBad' = FALSE /\ viol' = {} /\ sanity' = {}

ACall(lim, tl, t) ==
  /\ ~inCall
  /\ inCall' = TRUE /\ limit' = lim /\ t0' = t
  /\ dl' = IF tl = NoTime THEN NoTime ELSE TAdd(t, tl)
  /\ UNCHANGED <<piped, inlen, delivered, completeAt, emptyOkAt, contentBad, viol, sanity>>

ARet(kind, hasOut, hasErr, nout, nerr, outOk, errOk, t) ==
  /\ inCall /\ inCall' = FALSE
  /\ LET total == nout + nerr
         complete == kind = "ok" /\ limit = -1
     IN
     /\ delivered' = [o \in Outs |-> delivered[o] + (IF o = "out" THEN nout ELSE nerr)]
     /\ completeAt' = IF complete /\ completeAt = <<>> THEN <<delivered["out"] + nout, delivered["err"] + nerr>> ELSE completeAt
     /\ emptyOkAt' = IF kind = "ok" /\ total = 0 /\ emptyOkAt = NoTime THEN t ELSE emptyOkAt
     /\ contentBad' = (contentBad \/ ~outOk \/ ~errOk)
     /\ viol' = viol
          \cup V(kind # "panic", "C01_panic")
          \cup V(limit >= 0 => kind # "panic", "C03_limited_read_panics")
          \cup V(dl # NoTime => kind # "panic", "C04_timed_read_panics")
          \cup V(kind # "panic" => (hasOut = ("out" \in piped) /\ hasErr = ("err" \in piped)), "C02_absent_iff_not_piped")
          \cup V(outOk /\ errOk, "C02_out_exact")
          \cup V(dl # NoTime => outOk /\ errOk, "C04_no_output_lost_or_repeated_across_resumed_reads")
          \cup V(limit >= 0 /\ kind \in {"ok", "timedout"} => total <= limit, "C03_limit")
          \cup V(limit >= 0 => outOk /\ errOk, "C03_pieces_consecutive_and_exact")
          \cup V(kind = "timedout" => dl # NoTime /\ TLt(dl, TAdd(t, <<0, 1000000>>)), "C04_truthful")
          \cup V(dl # NoTime => TLe(t, TAdd(dl, LateSlack)), "C04_bounded")
  /\ UNCHANGED <<piped, inlen, limit, dl, t0, sanity>>

\* the watchdog found read() silent for its whole budget
AHang(evidence) ==
  /\ IF evidence \in {"child_exited", "child_blocked_on_pipe"}
     THEN viol' = viol \cup {"C01_deadlock"} /\ UNCHANGED sanity
     ELSE sanity' = sanity \cup {"watchdog_without_evidence"} /\ UNCHANGED viol
  /\ inCall' = FALSE
  /\ UNCHANGED <<piped, inlen, delivered, limit, dl, t0, completeAt, emptyOkAt, contentBad>>

\* the child's account (final: it ran its script to the end and was not killed by us)
AChild(final, wroteOut, wroteErr, recv, recvOk, eof, eofWait, tCloseOut, tCloseErr) ==
  /\ LET wrote == [o \in Outs |-> IF o = "out" THEN wroteOut ELSE wroteErr]
         tClose == [o \in Outs |-> IF o = "out" THEN tCloseOut ELSE tCloseErr]
     IN viol' = viol
          \cup V(recvOk /\ recv <= inlen, "C02_in_exact")
          \cup V(limit >= 0 => recvOk /\ recv <= inlen, "C03_input_delivered_exactly_once_across_limited_reads")
          \cup V(final => \A o \in Outs \cap piped : delivered[o] <= wrote[o], "C02_out_exact")
          \cup V(final /\ completeAt # <<>> => ("out" \in piped => completeAt[1] = wroteOut) /\ ("err" \in piped => completeAt[2] = wroteErr),
                 "C02_out_complete")
          \* the exchange was declared complete and the child read its input to the end: it got all of it
          \cup V(final /\ completeAt # <<>> /\ "in" \in piped /\ eof => recv = inlen, "C02_in_complete")
          \* all input received, then kept waiting for end-of-file
          \cup V("in" \in piped /\ eof /\ recv = inlen => TLe(eofWait, EofSlack), "C02_in_eof_prompt")
          \* under a size limit: when the all-empty end marker has come, the pieces add up to everything written
          \cup V(final /\ limit >= 0 /\ emptyOkAt # NoTime => \A o \in Outs \cap piped : delivered[o] = wrote[o],
                 "C03_pieces_consecutive_and_exact")
          \* an all-empty success means every captured stream had been closed by then
          \cup V(final /\ emptyOkAt # NoTime => \A o \in Outs \cap piped : tClose[o] # NoTime /\ TLe(tClose[o], emptyOkAt),
                 "C03_empty_is_eof")
  /\ UNCHANGED <<piped, inlen, delivered, inCall, limit, dl, t0, completeAt, emptyOkAt, contentBad, sanity>>

AToolError ==
  /\ sanity' = sanity \cup {"harness"}
  /\ UNCHANGED <<piped, inlen, delivered, inCall, limit, dl, t0, completeAt, emptyOkAt, contentBad, viol>>
=============================================================================
