SPECIFICATION Spec
CONSTANTS
  MaxN = 4
  MoveNotClone = FALSE
  KeepOnAppend = TRUE
INVARIANT NoViolation
CHECK_DEADLOCK FALSE
