SPECIFICATION Spec
CONSTANTS
  MaxN = 4
  MoveNotClone = FALSE
INVARIANT NoViolation
CHECK_DEADLOCK FALSE
